//! Scenario "build" (C15): the abstract tree `(seed, index)` is assembled with
//! walrus's builder API in five different construction orders; each module is
//! emitted and logged. Input bytes of the case: "<seed>:<index>".
//!
//!   1 append          parents first, everything appended in program order
//!   2 reverse         every sequence filled back to front with `instr_at(0, ..)`
//!   3 positional      items inserted in a random order at the position that keeps program order
//!   4 dangling        every nested sequence is created dangling, filled completely, attached afterwards
//!   5 closures        `block` / `loop_` / `if_else` with nested closures and the named instruction methods
//!   6 preallocated    every sequence of the function is created dangling up front in a random order (so arena
//!                     ids say nothing about nesting), then filled and attached; locals are allocated in a
//!                     random order too (parameters are not the lowest local ids)
//!   7 positional closures  items inserted in a random order with `block_at` / `loop_at` / `if_else_at` and the
//!                     named `*_at` instruction methods; the function gets a name through the builder
//!   8 closures reaching out   as 5, but an instruction that directly precedes a block / loop / if-else is
//!                     appended to the enclosing sequence from inside that construct's closure (the closure
//!                     reaches the whole builder through deref), i.e. before the construct itself is attached

use crate::util::guarded;
use std::collections::HashMap;
use walrus::ir::*;
use walrus::*;
use wv_gen::log::Rec;
use wv_gen::mspec::VT;
use wv_gen::rng::Rng;
use wv_gen::tree::{self, TFunc, TNode, TOp};

fn vt(t: VT) -> ValType {
    match t {
        VT::I32 => ValType::I32,
        VT::I64 => ValType::I64,
        VT::F32 => ValType::F32,
        VT::F64 => ValType::F64,
        VT::V128 => ValType::V128,
        VT::FuncRef => ValType::Ref(RefType::Funcref),
        VT::ExternRef => ValType::Ref(RefType::Externref),
    }
}

fn binop(n: &str) -> BinaryOp {
    use BinaryOp::*;
    match n {
        "I32Add" => I32Add, "I32Sub" => I32Sub, "I32Mul" => I32Mul, "I32And" => I32And, "I32Or" => I32Or, "I32Xor" => I32Xor, "I32Shl" => I32Shl,
        "I32ShrU" => I32ShrU, "I32LtS" => I32LtS, "I32Eq" => I32Eq, "I32DivU" => I32DivU, "I64Add" => I64Add, "I64Mul" => I64Mul, "I64Xor" => I64Xor,
        "I64LtU" => I64LtU, "F32Add" => F32Add, "F32Mul" => F32Mul, "F32Lt" => F32Lt, "F64Add" => F64Add, "F64Div" => F64Div, "F64Max" => F64Max,
        "F64Ge" => F64Ge,
        other => panic!("harness: unknown binop {}", other),
    }
}

fn unop(n: &str) -> UnaryOp {
    use UnaryOp::*;
    match n {
        "I32Eqz" => I32Eqz, "I32Clz" => I32Clz, "I32Popcnt" => I32Popcnt, "I64Eqz" => I64Eqz, "I64Ctz" => I64Ctz, "I32WrapI64" => I32WrapI64,
        "I64ExtendI32S" => I64ExtendSI32, "I64ExtendI32U" => I64ExtendUI32, "F32Neg" => F32Neg, "F64Sqrt" => F64Sqrt, "F64PromoteF32" => F64PromoteF32,
        "F32DemoteF64" => F32DemoteF64, "F32ConvertI32S" => F32ConvertSI32, "I32ReinterpretF32" => I32ReinterpretF32,
        other => panic!("harness: unknown unop {}", other),
    }
}

struct Env {
    locals: Vec<LocalId>,
    globals: Vec<GlobalId>,
    memory: MemoryId,
    /// memories 0 and 1, tables 0 and 1, the passive segments (bulk environment; empty when the tree has no bulk operator)
    mems: Vec<MemoryId>,
    tabs: Vec<TableId>,
    data: Option<DataId>,
    elem: Option<ElementId>,
    helper: FunctionId,
    /// construct id -> sequence type
    seq_tys: HashMap<usize, InstrSeqType>,
}

fn to_instr(op: &TOp, env: &Env, labels: &HashMap<usize, InstrSeqId>) -> Instr {
    match op {
        TOp::I32Const(v) => Const { value: Value::I32(*v) }.into(),
        TOp::I64Const(v) => Const { value: Value::I64(*v) }.into(),
        TOp::F32Const(v) => Const { value: Value::F32(f32::from_bits(*v)) }.into(),
        TOp::F64Const(v) => Const { value: Value::F64(f64::from_bits(*v)) }.into(),
        TOp::LocalGet(l) => LocalGet { local: env.locals[*l] }.into(),
        TOp::LocalSet(l) => LocalSet { local: env.locals[*l] }.into(),
        TOp::LocalTee(l) => LocalTee { local: env.locals[*l] }.into(),
        TOp::GlobalGet(g) => GlobalGet { global: env.globals[*g] }.into(),
        TOp::GlobalSet(g) => GlobalSet { global: env.globals[*g] }.into(),
        TOp::Bin(n) => Binop { op: binop(n) }.into(),
        TOp::Un(n) => Unop { op: unop(n) }.into(),
        TOp::Drop => Drop {}.into(),
        TOp::Select => Select { ty: None }.into(),
        TOp::Br(id) => Br { block: labels[id] }.into(),
        TOp::BrIf(id) => BrIf { block: labels[id] }.into(),
        TOp::BrTable(ts, d) => BrTable { blocks: ts.iter().map(|t| labels[t]).collect::<Vec<_>>().into_boxed_slice(), default: labels[d] }.into(),
        TOp::Return => Return {}.into(),
        TOp::Unreachable => Unreachable {}.into(),
        TOp::I32Load { align_log2, offset } => Load { memory: env.memory, kind: LoadKind::I32 { atomic: false }, arg: MemArg { align: 1 << align_log2, offset: (*offset).into() } }.into(),
        TOp::I64Load { align_log2, offset } => Load { memory: env.memory, kind: LoadKind::I64 { atomic: false }, arg: MemArg { align: 1 << align_log2, offset: (*offset).into() } }.into(),
        TOp::I32Store { align_log2, offset } => Store { memory: env.memory, kind: StoreKind::I32 { atomic: false }, arg: MemArg { align: 1 << align_log2, offset: (*offset).into() } }.into(),
        TOp::I32Store8 { offset } => Store { memory: env.memory, kind: StoreKind::I32_8 { atomic: false }, arg: MemArg { align: 1, offset: (*offset).into() } }.into(),
        TOp::MemorySize => MemorySize { memory: env.memory }.into(),
        TOp::MemoryGrow => MemoryGrow { memory: env.memory }.into(),
        TOp::CallHelper => Call { func: env.helper }.into(),
        TOp::MemoryCopy { src, dst } => MemoryCopy { src: env.mems[*src], dst: env.mems[*dst] }.into(),
        TOp::TableCopy { src, dst } => TableCopy { src: env.tabs[*src], dst: env.tabs[*dst] }.into(),
        TOp::MemoryInit { mem } => MemoryInit { memory: env.mems[*mem], data: env.data.unwrap() }.into(),
        TOp::DataDrop => DataDrop { data: env.data.unwrap() }.into(),
        TOp::TableInit { table } => TableInit { table: env.tabs[*table], elem: env.elem.unwrap() }.into(),
        TOp::ElemDrop => ElemDrop { elem: env.elem.unwrap() }.into(),
        TOp::MemoryFill { mem } => MemoryFill { memory: env.mems[*mem] }.into(),
        TOp::TableSize { table } => TableSize { table: env.tabs[*table] }.into(),
    }
}

fn collect_types(nodes: &[TNode], types: &mut ModuleTypes, out: &mut HashMap<usize, InstrSeqType>) {
    for n in nodes {
        match n {
            TNode::Op(_) => {}
            TNode::Block { id, params, results, body } | TNode::Loop { id, params, results, body } => {
                let p: Vec<ValType> = params.iter().map(|t| vt(*t)).collect();
                let r: Vec<ValType> = results.iter().map(|t| vt(*t)).collect();
                out.insert(*id, InstrSeqType::new(types, &p, &r));
                collect_types(body, types, out);
            }
            TNode::If { id, params, results, then_, else_ } => {
                let p: Vec<ValType> = params.iter().map(|t| vt(*t)).collect();
                let r: Vec<ValType> = results.iter().map(|t| vt(*t)).collect();
                out.insert(*id, InstrSeqType::new(types, &p, &r));
                collect_types(then_, types, out);
                collect_types(else_, types, out);
            }
        }
    }
}

/// Orders 1-4 share this recursion; `order` selects how items reach their sequence.
fn build_seq(fb: &mut FunctionBuilder, seq: InstrSeqId, nodes: &[TNode], env: &Env, labels: &mut HashMap<usize, InstrSeqId>, order: u32, rng: &mut Rng) {
    // the items of this sequence, in program order, as closures producing the instruction
    let n = nodes.len();
    let idxs: Vec<usize> = match order {
        1 | 4 => (0..n).collect(),
        2 => (0..n).rev().collect(),
        _ => {
            let mut v: Vec<usize> = (0..n).collect();
            rng.shuffle(&mut v);
            v
        }
    };
    let mut placed: Vec<usize> = Vec::new(); // program-order indices already in the sequence
    for i in idxs {
        let instr: Instr = match &nodes[i] {
            TNode::Op(op) => to_instr(op, env, labels),
            TNode::Block { id, body, .. } => {
                let child = fb.dangling_instr_seq(env.seq_tys[id]).id();
                labels.insert(*id, child);
                if order == 4 {
                    build_seq(fb, child, body, env, labels, order, rng);
                }
                Block { seq: child }.into()
            }
            TNode::Loop { id, body, .. } => {
                let child = fb.dangling_instr_seq(env.seq_tys[id]).id();
                labels.insert(*id, child);
                if order == 4 {
                    build_seq(fb, child, body, env, labels, order, rng);
                }
                Loop { seq: child }.into()
            }
            TNode::If { id, then_, else_, .. } => {
                let c = fb.dangling_instr_seq(env.seq_tys[id]).id();
                let a = fb.dangling_instr_seq(env.seq_tys[id]).id();
                if order == 4 {
                    labels.insert(*id, c);
                    build_seq(fb, c, then_, env, labels, order, rng);
                    labels.insert(*id, a);
                    build_seq(fb, a, else_, env, labels, order, rng);
                }
                IfElse { consequent: c, alternative: a }.into()
            }
        };
        // where does it go?
        let pos = placed.iter().filter(|p| **p < i).count();
        let child_ids = match &instr {
            Instr::Block(b) => Some((b.seq, None)),
            Instr::Loop(l) => Some((l.seq, None)),
            Instr::IfElse(ie) => Some((ie.consequent, Some(ie.alternative))),
            _ => None,
        };
        match order {
            1 | 4 => {
                fb.instr_seq(seq).instr(instr);
            }
            2 => {
                fb.instr_seq(seq).instr_at(0, instr);
            }
            _ => {
                fb.instr_seq(seq).instr_at(pos, instr);
            }
        }
        placed.push(i);
        // orders 1-3: the nested sequences are filled after their parent instruction has been placed
        if order != 4 {
            if let Some((c, a)) = child_ids {
                match &nodes[i] {
                    TNode::Block { body, .. } | TNode::Loop { body, .. } => build_seq(fb, c, body, env, labels, order, rng),
                    TNode::If { id, then_, else_, .. } => {
                        labels.insert(*id, c);
                        build_seq(fb, c, then_, env, labels, order, rng);
                        labels.insert(*id, a.unwrap());
                        build_seq(fb, a.unwrap(), else_, env, labels, order, rng);
                    }
                    _ => {}
                }
            }
        }
    }
}

/// Order 6: the sequences already exist (created in an order unrelated to nesting); fill and attach.
fn build_pre(fb: &mut FunctionBuilder, seq: InstrSeqId, nodes: &[TNode], env: &Env, labels: &mut HashMap<usize, InstrSeqId>, pre: &HashMap<usize, (InstrSeqId, Option<InstrSeqId>)>) {
    for n in nodes {
        match n {
            TNode::Op(op) => {
                let i = to_instr(op, env, labels);
                fb.instr_seq(seq).instr(i);
            }
            TNode::Block { id, body, .. } => {
                let child = pre[id].0;
                labels.insert(*id, child);
                fb.instr_seq(seq).instr(Block { seq: child });
                build_pre(fb, child, body, env, labels, pre);
            }
            TNode::Loop { id, body, .. } => {
                let child = pre[id].0;
                labels.insert(*id, child);
                fb.instr_seq(seq).instr(Loop { seq: child });
                build_pre(fb, child, body, env, labels, pre);
            }
            TNode::If { id, then_, else_, .. } => {
                let (c, a) = (pre[id].0, pre[id].1.unwrap());
                fb.instr_seq(seq).instr(IfElse { consequent: c, alternative: a });
                labels.insert(*id, c);
                build_pre(fb, c, then_, env, labels, pre);
                labels.insert(*id, a);
                build_pre(fb, a, else_, env, labels, pre);
            }
        }
    }
}

/// Order 5: nested closures and the named builder methods.
fn build_closures(b: &mut InstrSeqBuilder, nodes: &[TNode], env: &Env, labels: &mut HashMap<usize, InstrSeqId>, reach_out: bool) {
    let parent = b.id();
    let mut deferred: Option<Instr> = None;
    for (ni, n) in nodes.iter().enumerate() {
        // order 8: hold back an instruction that directly precedes a nested construct
        if reach_out && deferred.is_none() {
            if let (TNode::Op(op), Some(next)) = (n, nodes.get(ni + 1)) {
                if !matches!(next, TNode::Op(_)) {
                    deferred = Some(to_instr(op, env, labels));
                    continue;
                }
            }
        }
        let held = deferred.take();
        match n {
            TNode::Op(op) => {
                match op {
                    TOp::I32Const(v) => b.i32_const(*v),
                    TOp::I64Const(v) => b.i64_const(*v),
                    TOp::F32Const(v) => b.f32_const(f32::from_bits(*v)),
                    TOp::F64Const(v) => b.f64_const(f64::from_bits(*v)),
                    TOp::LocalGet(l) => b.local_get(env.locals[*l]),
                    TOp::LocalSet(l) => b.local_set(env.locals[*l]),
                    TOp::LocalTee(l) => b.local_tee(env.locals[*l]),
                    TOp::GlobalGet(g) => b.global_get(env.globals[*g]),
                    TOp::GlobalSet(g) => b.global_set(env.globals[*g]),
                    TOp::Bin(n) => b.binop(binop(n)),
                    TOp::Un(n) => b.unop(unop(n)),
                    TOp::Drop => b.drop(),
                    TOp::Select => b.select(None),
                    TOp::Br(id) => b.br(labels[id]),
                    TOp::BrIf(id) => b.br_if(labels[id]),
                    TOp::Return => b.return_(),
                    TOp::Unreachable => b.unreachable(),
                    TOp::MemorySize => b.memory_size(env.memory),
                    TOp::MemoryGrow => b.memory_grow(env.memory),
                    TOp::CallHelper => b.call(env.helper),
                    // the convenience methods take (source, destination) / (container, segment)
                    TOp::MemoryCopy { src, dst } => b.memory_copy(env.mems[*src], env.mems[*dst]),
                    TOp::TableCopy { src, dst } => b.table_copy(env.tabs[*src], env.tabs[*dst]),
                    TOp::MemoryInit { mem } => b.memory_init(env.mems[*mem], env.data.unwrap()),
                    TOp::DataDrop => b.data_drop(env.data.unwrap()),
                    TOp::TableInit { table } => b.table_init(env.tabs[*table], env.elem.unwrap()),
                    TOp::ElemDrop => b.elem_drop(env.elem.unwrap()),
                    TOp::MemoryFill { mem } => b.memory_fill(env.mems[*mem]),
                    TOp::TableSize { table } => b.table_size(env.tabs[*table]),
                    other => b.instr(to_instr(other, env, labels)),
                };
            }
            TNode::Block { id, body, .. } => {
                // the closure needs the label map: use a raw re-borrow through a local
                let lab: *mut HashMap<usize, InstrSeqId> = labels;
                b.block(env.seq_tys[id], |inner| {
                    let labels = unsafe { &mut *lab };
                    labels.insert(*id, inner.id());
                    if let Some(h) = held {
                        inner.instr_seq(parent).instr(h);
                    }
                    build_closures(inner, body, env, labels, reach_out);
                });
            }
            TNode::Loop { id, body, .. } => {
                let lab: *mut HashMap<usize, InstrSeqId> = labels;
                b.loop_(env.seq_tys[id], |inner| {
                    let labels = unsafe { &mut *lab };
                    labels.insert(*id, inner.id());
                    if let Some(h) = held {
                        inner.instr_seq(parent).instr(h);
                    }
                    build_closures(inner, body, env, labels, reach_out);
                });
            }
            TNode::If { id, then_, else_, .. } => {
                let lab: *mut HashMap<usize, InstrSeqId> = labels;
                b.if_else(
                    env.seq_tys[id],
                    |inner| {
                        let labels = unsafe { &mut *lab };
                        labels.insert(*id, inner.id());
                        if let Some(h) = held {
                            inner.instr_seq(parent).instr(h);
                        }
                        build_closures(inner, then_, env, labels, reach_out);
                    },
                    |inner| {
                        let labels = unsafe { &mut *lab };
                        labels.insert(*id, inner.id());
                        build_closures(inner, else_, env, labels, reach_out);
                    },
                );
            }
        }
    }
}

/// Order 7: random-order positional insertion through the closure-taking `*_at` methods.
fn build_positional_closures(b: &mut InstrSeqBuilder, nodes: &[TNode], env: &Env, labels: &mut HashMap<usize, InstrSeqId>, rng: &mut Rng) {
    let mut idxs: Vec<usize> = (0..nodes.len()).collect();
    rng.shuffle(&mut idxs);
    let mut placed: Vec<usize> = Vec::new();
    for i in idxs {
        let pos = placed.iter().filter(|p| **p < i).count();
        match &nodes[i] {
            TNode::Op(op) => {
                match op {
                    TOp::I32Const(v) => b.const_at(pos, Value::I32(*v)),
                    TOp::I64Const(v) => b.const_at(pos, Value::I64(*v)),
                    TOp::LocalGet(l) => b.local_get_at(pos, env.locals[*l]),
                    TOp::LocalSet(l) => b.local_set_at(pos, env.locals[*l]),
                    TOp::LocalTee(l) => b.local_tee_at(pos, env.locals[*l]),
                    TOp::GlobalGet(g) => b.global_get_at(pos, env.globals[*g]),
                    TOp::GlobalSet(g) => b.global_set_at(pos, env.globals[*g]),
                    TOp::Bin(n) => b.binop_at(pos, binop(n)),
                    TOp::Un(n) => b.unop_at(pos, unop(n)),
                    TOp::Drop => b.drop_at(pos),
                    TOp::Br(id) => b.br_at(pos, labels[id]),
                    TOp::BrIf(id) => b.br_if_at(pos, labels[id]),
                    TOp::Return => b.return_at(pos),
                    TOp::Unreachable => b.unreachable_at(pos),
                    TOp::CallHelper => b.call_at(pos, env.helper),
                    TOp::MemoryCopy { src, dst } => b.memory_copy_at(pos, env.mems[*src], env.mems[*dst]),
                    TOp::TableCopy { src, dst } => b.table_copy_at(pos, env.tabs[*src], env.tabs[*dst]),
                    TOp::MemoryInit { mem } => b.memory_init_at(pos, env.mems[*mem], env.data.unwrap()),
                    TOp::DataDrop => b.data_drop_at(pos, env.data.unwrap()),
                    TOp::TableInit { table } => b.table_init_at(pos, env.tabs[*table], env.elem.unwrap()),
                    TOp::ElemDrop => b.elem_drop_at(pos, env.elem.unwrap()),
                    TOp::MemoryFill { mem } => b.memory_fill_at(pos, env.mems[*mem]),
                    other => b.instr_at(pos, to_instr(other, env, labels)),
                };
            }
            TNode::Block { id, body, .. } => {
                let (lab, r): (*mut HashMap<usize, InstrSeqId>, *mut Rng) = (labels, rng);
                b.block_at(pos, env.seq_tys[id], |inner| {
                    let (labels, rng) = unsafe { (&mut *lab, &mut *r) };
                    labels.insert(*id, inner.id());
                    build_positional_closures(inner, body, env, labels, rng);
                });
            }
            TNode::Loop { id, body, .. } => {
                let (lab, r): (*mut HashMap<usize, InstrSeqId>, *mut Rng) = (labels, rng);
                b.loop_at(pos, env.seq_tys[id], |inner| {
                    let (labels, rng) = unsafe { (&mut *lab, &mut *r) };
                    labels.insert(*id, inner.id());
                    build_positional_closures(inner, body, env, labels, rng);
                });
            }
            TNode::If { id, then_, else_, .. } => {
                let (lab, r): (*mut HashMap<usize, InstrSeqId>, *mut Rng) = (labels, rng);
                b.if_else_at(
                    pos,
                    env.seq_tys[id],
                    |inner| {
                        let (labels, rng) = unsafe { (&mut *lab, &mut *r) };
                        labels.insert(*id, inner.id());
                        build_positional_closures(inner, then_, env, labels, rng);
                    },
                    |inner| {
                        let (labels, rng) = unsafe { (&mut *lab, &mut *r) };
                        labels.insert(*id, inner.id());
                        build_positional_closures(inner, else_, env, labels, rng);
                    },
                );
            }
        }
        placed.push(i);
    }
}

fn build_module(t: &TFunc, order: u32, seed: u64) -> Vec<u8> {
    build_module_mode(t, order, seed, 0)
}

/// mode 0: build, emit. mode 1: build, emit, edit the finished function through `builder_mut` (a read of one
/// of its locals - possibly one the body did not mention so far - in front of the body), emit again and return
/// that second emission. mode 2: build, the same edit, emit once. Modes 1 and 2 must give the same bytes.
fn build_module_mode(t: &TFunc, order: u32, seed: u64, mode: u8) -> Vec<u8> {
    let mut cfg = ModuleConfig::new();
    cfg.generate_producers_section(false);
    let mut m = Module::with_config(cfg);
    let memory = m.memories.add_local(false, false, 1, None, None);
    let globals: Vec<GlobalId> = tree::ENV_GLOBALS
        .iter()
        .map(|t| {
            let init = match t {
                VT::I32 => ConstExpr::Value(Value::I32(0)),
                VT::I64 => ConstExpr::Value(Value::I64(0)),
                VT::F32 => ConstExpr::Value(Value::F32(0.0)),
                _ => ConstExpr::Value(Value::F64(0.0)),
            };
            m.globals.add_local(vt(*t), true, false, init)
        })
        .collect();
    // helper (i32) -> i32
    let helper = {
        let p = m.locals.add(ValType::I32);
        let mut fb = FunctionBuilder::new(&mut m.types, &[ValType::I32], &[ValType::I32]);
        fb.func_body().local_get(p);
        fb.finish(vec![p], &mut m.funcs)
    };
    let mut rng = Rng::derive(seed, &[order as u64]);
    let locals: Vec<LocalId> = if order == 6 || order == 3 {
        // allocation order is not signature order
        let mut idx: Vec<usize> = (0..t.locals.len()).collect();
        rng.shuffle(&mut idx);
        let mut ids: Vec<Option<LocalId>> = vec![None; t.locals.len()];
        for i in idx {
            ids[i] = Some(m.locals.add(vt(t.locals[i])));
        }
        ids.into_iter().map(|x| x.unwrap()).collect()
    } else {
        t.locals.iter().map(|ty| m.locals.add(vt(*ty))).collect()
    };
    let params: Vec<ValType> = t.params.iter().map(|x| vt(*x)).collect();
    let results: Vec<ValType> = t.results.iter().map(|x| vt(*x)).collect();
    let mut seq_tys = HashMap::new();
    collect_types(&t.body, &mut m.types, &mut seq_tys);
    let (mut mems, mut tabs, mut data, mut elem) = (vec![memory], vec![], None, None);
    if tree::uses_bulk(&t.body) {
        mems.push(m.memories.add_local(false, false, 1, None, None));
        for _ in 0..2 {
            tabs.push(m.tables.add_local(false, 4, None, RefType::Funcref));
        }
        data = Some(m.data.add(DataKind::Passive, vec![1, 2, 3, 4]));
        elem = Some(m.elements.add(ElementKind::Passive, ElementItems::Functions(vec![helper, helper])));
    }
    let env = Env { locals: locals.clone(), globals, memory, mems, tabs, data, elem, helper, seq_tys };
    let mut fb = FunctionBuilder::new(&mut m.types, &params, &results);
    let mut labels: HashMap<usize, InstrSeqId> = HashMap::new();
    let body_id = fb.func_body_id();
    labels.insert(0, body_id);
    if order == 6 {
        // create every sequence up front, in a random order of constructs
        let mut constructs: Vec<(usize, bool)> = Vec::new();
        fn collect(nodes: &[TNode], out: &mut Vec<(usize, bool)>) {
            for n in nodes {
                match n {
                    TNode::Op(_) => {}
                    TNode::Block { id, body, .. } | TNode::Loop { id, body, .. } => {
                        out.push((*id, false));
                        collect(body, out);
                    }
                    TNode::If { id, then_, else_, .. } => {
                        out.push((*id, true));
                        collect(then_, out);
                        collect(else_, out);
                    }
                }
            }
        }
        collect(&t.body, &mut constructs);
        rng.shuffle(&mut constructs);
        let mut pre: HashMap<usize, (InstrSeqId, Option<InstrSeqId>)> = HashMap::new();
        for (id, is_if) in &constructs {
            let a = fb.dangling_instr_seq(env.seq_tys[id]).id();
            let b = if *is_if { Some(fb.dangling_instr_seq(env.seq_tys[id]).id()) } else { None };
            pre.insert(*id, (a, b));
        }
        build_pre(&mut fb, body_id, &t.body, &env, &mut labels, &pre);
    } else if order == 5 || order == 8 {
        let mut b = fb.func_body();
        build_closures(&mut b, &t.body, &env, &mut labels, order == 8);
    } else if order == 7 {
        fb.name("wv_built".to_string());
        let mut b = fb.func_body();
        build_positional_closures(&mut b, &t.body, &env, &mut labels, &mut rng);
    } else {
        build_seq(&mut fb, body_id, &t.body, &env, &mut labels, order, &mut rng);
    }
    let f = fb.finish(locals[..t.params.len()].to_vec(), &mut m.funcs);
    m.exports.add("f", f);
    m.exports.add("helper", helper);
    if mode == 0 {
        return m.emit_wasm();
    }
    if mode == 1 {
        let _first = m.emit_wasm();
    }
    {
        let lf = m.funcs.get_mut(f).kind.unwrap_local_mut();
        let mut b = lf.builder_mut().func_body();
        if locals.is_empty() {
            b.const_at(0, Value::I32(5));
        } else {
            b.local_get_at(0, locals[(seed % locals.len() as u64) as usize]);
        }
        b.drop_at(1);
    }
    m.emit_wasm()
}

pub fn run(input: &[u8], rec: &mut Rec) {
    let text = String::from_utf8_lossy(input).to_string();
    let (seed, index) = match text.split_once(':').and_then(|(a, b)| Some((a.parse::<u64>().ok()?, b.parse::<u64>().ok()?))) {
        Some(x) => x,
        None => {
            rec.push_s("harness_error", "bad tree spec");
            return;
        }
    };
    let t = tree::tree_for(seed, index);
    rec.push_n("nodes", tree::count_nodes(&t.body) as u64);
    for order in 1..=8u32 {
        match guarded(|| build_module(&t, order, seed ^ index)) {
            Ok(out) => rec.push_b(&format!("out.{}", order), &out),
            Err(p) => rec.push_s(&format!("panic.{}", order), &p),
        }
    }
    // one order per tree: emit, edit through builder_mut, emit again - against edit first, emit once
    let order = 1 + (index % 8) as u32;
    match guarded(|| (build_module_mode(&t, order, seed ^ index, 1), build_module_mode(&t, order, seed ^ index, 2))) {
        Ok((second, fresh)) => {
            rec.push_b("reemit.second", &second);
            rec.push_b("reemit.fresh", &fresh);
        }
        Err(p) => rec.push_s("panic.reemit", &p),
    }
}

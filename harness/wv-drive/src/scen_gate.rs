//! Scenario "gate" (C05): parse arbitrary bytes under {default, only_stable_features}
//! on a small (2 MiB) thread stack, with a CPU budget armed for the process.

use crate::util::{arm_cpu_budget, cfg_from_mask, guarded, thread_cpu_ns, DEFAULT_CFG};
use wv_gen::log::Rec;

pub const CPU_BUDGET_S: u64 = 60;

pub fn run(input: &[u8], rec: &mut Rec) {
    // For a third of the inputs one configuration value serves both parses: only_stable_features is flipped on
    // that same value between them (in either direction), as a tool that keeps its configuration around does.
    let h = wv_gen::rng::fnv64(input);
    let shared = (h >> 17) % 3 == 0;
    let order: [(&str, u32); 2] = if (h >> 19) % 2 == 0 { [("default", DEFAULT_CFG), ("stable", DEFAULT_CFG | 32)] } else { [("stable", DEFAULT_CFG | 32), ("default", DEFAULT_CFG)] };
    let mut carried: Option<walrus::ModuleConfig> = None;
    for (label, mask) in order {
        arm_cpu_budget(CPU_BUDGET_S);
        let bytes = input.to_vec();
        let reuse = if shared { carried.take() } else { None };
        let handle = std::thread::Builder::new()
            .stack_size(2 * 1024 * 1024)
            .spawn(move || {
                crate::util::install_panic_hook();
                // the configuration reaches the parser by one of the public routes: used directly, through a
                // clone (what a tool that stores its configuration does), through Module::from_buffer_with_config
                let cfg = match reuse {
                    Some(mut c) => {
                        c.only_stable_features(mask & 32 != 0);
                        c
                    }
                    None => cfg_from_mask(mask),
                };
                let route = wv_gen::rng::fnv64(&bytes) % 4;
                let cfg = match route {
                    1 => cfg.clone(),
                    2 => cfg.clone().clone(),
                    _ => cfg,
                };
                let t0 = thread_cpu_ns();
                let twice = (wv_gen::rng::fnv64(&bytes) >> 9) % 2 == 1;
                let r = guarded(|| {
                    let one = |cfg: &walrus::ModuleConfig| if route == 3 { walrus::Module::from_buffer_with_config(&bytes, cfg).map(|m| drop(m)) } else { cfg.parse(&bytes).map(|m| drop(m)) };
                    let first = one(&cfg);
                    if !twice {
                        return first;
                    }
                    // the same configuration value used for a second parse: the decision must not change
                    let second = one(&cfg);
                    if first.is_ok() != second.is_ok() {
                        panic!("the first parse with this configuration value {} the input, the second {} it", if first.is_ok() { "accepted" } else { "rejected" }, if second.is_ok() { "accepted" } else { "rejected" });
                    }
                    second
                });
                let dt = thread_cpu_ns() - t0;
                (r, dt, cfg)
            })
            .expect("spawn");
        match handle.join() {
            Ok((r, dt, cfg)) => {
                carried = Some(cfg);
                rec.push_n(&format!("gate.{}.cpu_ns", label), dt);
                match r {
                    Ok(Ok(())) => rec.push_s(&format!("gate.{}", label), "ok"),
                    Ok(Err(e)) => {
                        rec.push_s(&format!("gate.{}", label), "err");
                        let msg: String = format!("{:#}", e).lines().next().unwrap_or("").chars().take(200).collect();
                        rec.push_s(&format!("gate.{}.err", label), &msg);
                    }
                    Err(p) => {
                        rec.push_s(&format!("gate.{}", label), "panic");
                        rec.push_s(&format!("gate.{}.panic", label), &p);
                    }
                }
            }
            Err(_) => {
                rec.push_s(&format!("gate.{}", label), "panic");
                rec.push_s(&format!("gate.{}.panic", label), "?: thread died outside catch_unwind");
            }
        }
    }
}

//! Scenario "edit" (C02): a seeded script of edits that are well-formed by
//! construction, applied through the public builder and edit APIs to a parsed
//! module; the module is emitted after the script, and again after GC.
//! (The oracle crate is used here only to find entities that nothing
//! references, so that deleting them is a well-formed edit.)

use crate::probe::{self, InputIds};
use crate::scen_rt::insert_markers;
use crate::util::guarded;
use walrus::ir::Value;
use walrus::*;
use wv_gen::log::Rec;
use wv_gen::rng::Rng;

fn parse(input: &[u8], cfg_mask: u32) -> Option<(Module, InputIds)> {
    let ids = std::sync::Arc::new(std::sync::Mutex::new(InputIds::default()));
    let i2 = ids.clone();
    let mut cfg = crate::util::cfg_from_mask(cfg_mask);
    cfg.on_parse(move |m, ids| {
        let mut log = probe::OnParseLog::default();
        probe::observe_on_parse(m, ids, &mut log, false);
        *i2.lock().unwrap() = log.ids;
        Ok(())
    });
    let m = cfg.parse(input).ok()?;
    let ids = ids.lock().unwrap().clone();
    Some((m, ids))
}

fn apply_edits(m: &mut Module, ids: &InputIds, input: &[u8], rng: &mut Rng, log: &mut Vec<String>) {
    let n = rng.range(1, 8);
    let decoded = wv_oracle::decode::decode(input).ok();
    let unref = decoded.as_ref().map(|d| wv_oracle::reach::referenced(d));
    let to_vt = |t: &wv_gen::mspec::VT| -> ValType {
        use wv_gen::mspec::VT;
        match t {
            VT::I32 => ValType::I32,
            VT::I64 => ValType::I64,
            VT::F32 => ValType::F32,
            VT::F64 => ValType::F64,
            VT::V128 => ValType::V128,
            VT::FuncRef => ValType::Ref(RefType::Funcref),
            VT::ExternRef => ValType::Ref(RefType::Externref),
        }
    };
    let in_types: Vec<(Vec<ValType>, Vec<ValType>)> = decoded
        .as_ref()
        .map(|d| d.types.iter().map(|s| (s.params.iter().map(to_vt).collect(), s.results.iter().map(to_vt).collect())).collect())
        .unwrap_or_default();
    let mut deleted_funcs: Vec<FunctionId> = Vec::new();
    // entities an earlier edit of this script started to reference from code: not to be deleted afterwards
    let mut pinned_globals: Vec<GlobalId> = Vec::new();
    let mut pinned_datas: Vec<walrus::DataId> = Vec::new();
    for step in 0..n {
        match rng.below(24) {
            16 | 17 => {
                // a new local in an existing (parsed or built) function: allocated now, so newer than the
                // function's parameters and locals; written and read in front of the body
                let locals: Vec<FunctionId> = m.funcs.iter_local().map(|(id, _)| id).filter(|f| !deleted_funcs.contains(f)).collect();
                if locals.is_empty() {
                    continue;
                }
                let target = *rng.pick(&locals);
                let (ty, val) = match rng.below(4) {
                    0 => (ValType::I32, Value::I32(7)),
                    1 => (ValType::I64, Value::I64(7)),
                    2 => (ValType::F32, Value::F32(7.0)),
                    _ => (ValType::F64, Value::F64(7.0)),
                };
                let l = m.locals.add(ty);
                let f = m.funcs.get_mut(target).kind.unwrap_local_mut();
                let mut b = f.builder_mut().func_body();
                b.instr_at(0, walrus::ir::Const { value: val });
                b.instr_at(1, walrus::ir::LocalSet { local: l });
                b.instr_at(2, walrus::ir::LocalGet { local: l });
                b.instr_at(3, walrus::ir::Drop {});
                log.push("new-local-in-existing-function".into());
            }
            18 => {
                // delete an export (always well-formed; may leave a ref.func target without a declaration)
                let es: Vec<walrus::ExportId> = m.exports.iter().map(|e| e.id()).collect();
                if !es.is_empty() {
                    let e = *rng.pick(&es);
                    if rng.bool() {
                        m.exports.delete(e);
                    } else {
                        let name = m.exports.get(e).name.clone();
                        let _ = m.exports.remove(&name);
                    }
                    log.push("delete-export".into());
                }
            }
            19 | 20 => {
                // grow what is there: limits (within the maximum), segment contents
                match rng.below(4) {
                    0 => {
                        let ts: Vec<TableId> = m.tables.iter().map(|t| t.id()).collect();
                        if !ts.is_empty() {
                            let t = m.tables.get_mut(*rng.pick(&ts));
                            if t.maximum.map(|mx| t.initial < mx).unwrap_or(true) && t.initial < 1000 {
                                t.initial += 1;
                            }
                        }
                    }
                    1 => {
                        let ms: Vec<MemoryId> = m.memories.iter().map(|t| t.id()).collect();
                        if !ms.is_empty() {
                            let t = m.memories.get_mut(*rng.pick(&ms));
                            if t.maximum.map(|mx| t.initial < mx).unwrap_or(true) && t.initial < 100 {
                                t.initial += 1;
                            }
                        }
                    }
                    2 => {
                        let ds: Vec<walrus::DataId> = m.data.iter().map(|d| d.id()).collect();
                        if !ds.is_empty() {
                            m.data.get_mut(*rng.pick(&ds)).value.extend_from_slice(&[0xEE, step as u8]);
                        }
                    }
                    _ => {
                        let fs: Vec<FunctionId> = m.funcs.iter().map(|f| f.id()).filter(|f| !deleted_funcs.contains(f)).collect();
                        let es: Vec<walrus::ElementId> = m.elements.iter().filter(|e| matches!(e.items, ElementItems::Functions(_))).map(|e| e.id()).collect();
                        if !es.is_empty() && !fs.is_empty() {
                            let f = *rng.pick(&fs);
                            if let ElementItems::Functions(v) = &mut m.elements.get_mut(*rng.pick(&es)).items {
                                v.push(f);
                            }
                        }
                    }
                }
                log.push("grow-limits-or-segments".into());
            }
            14 | 15 => {
                // new references from code: instructions naming an existing segment, function, global, table or
                // memory are put in front of a function body (operand-neutral sequences)
                let locals: Vec<FunctionId> = m.funcs.iter_local().map(|(id, _)| id).filter(|f| !deleted_funcs.contains(f)).collect();
                if locals.is_empty() {
                    continue;
                }
                let target = *rng.pick(&locals);
                let datas: Vec<walrus::DataId> = m.data.iter().map(|d| d.id()).collect();
                let elems: Vec<walrus::ElementId> = m.elements.iter().map(|d| d.id()).collect();
                let fs: Vec<FunctionId> = m.funcs.iter().map(|f| f.id()).filter(|f| !deleted_funcs.contains(f)).collect();
                let gs: Vec<GlobalId> = m.globals.iter().map(|g| g.id()).collect();
                let ms: Vec<(MemoryId, bool)> = m.memories.iter().map(|g| (g.id(), g.memory64)).collect();
                let ts: Vec<TableId> = m.tables.iter().map(|g| g.id()).collect();
                let mut seq: Vec<walrus::ir::Instr> = Vec::new();
                let what;
                match rng.below(7) {
                    0 if !datas.is_empty() => {
                        let d = *rng.pick(&datas);
                        pinned_datas.push(d);
                        seq.push(walrus::ir::DataDrop { data: d }.into());
                        what = "data.drop";
                    }
                    1 if !elems.is_empty() => {
                        seq.push(walrus::ir::ElemDrop { elem: *rng.pick(&elems) }.into());
                        what = "elem.drop";
                    }
                    2 if !datas.is_empty() && !ms.is_empty() => {
                        let (mem, is64) = *rng.pick(&ms);
                        seq.push(walrus::ir::Const { value: if is64 { Value::I64(0) } else { Value::I32(0) } }.into());
                        seq.push(walrus::ir::Const { value: Value::I32(0) }.into());
                        seq.push(walrus::ir::Const { value: Value::I32(0) }.into());
                        let d = *rng.pick(&datas);
                        pinned_datas.push(d);
                        seq.push(walrus::ir::MemoryInit { memory: mem, data: d }.into());
                        what = "memory.init";
                    }
                    3 if !fs.is_empty() => {
                        seq.push(walrus::ir::RefFunc { func: *rng.pick(&fs) }.into());
                        seq.push(walrus::ir::Drop {}.into());
                        what = "ref.func";
                    }
                    4 if !gs.is_empty() => {
                        let g = *rng.pick(&gs);
                        pinned_globals.push(g);
                        seq.push(walrus::ir::GlobalGet { global: g }.into());
                        seq.push(walrus::ir::Drop {}.into());
                        what = "global.get";
                    }
                    5 if !ts.is_empty() => {
                        seq.push(walrus::ir::TableSize { table: *rng.pick(&ts) }.into());
                        seq.push(walrus::ir::Drop {}.into());
                        what = "table.size";
                    }
                    _ if !ms.is_empty() => {
                        seq.push(walrus::ir::MemorySize { memory: rng.pick(&ms).0 }.into());
                        seq.push(walrus::ir::Drop {}.into());
                        what = "memory.size";
                    }
                    _ => continue,
                }
                let f = m.funcs.get_mut(target).kind.unwrap_local_mut();
                let mut b = f.builder_mut().func_body();
                for (i, ins) in seq.into_iter().enumerate() {
                    b.instr_at(i, ins);
                }
                log.push(format!("insert-reference({})", what));
            }
            0 => {
                // export an existing entity under a fresh name
                let name = format!("wv_export_{}", step);
                let fs: Vec<FunctionId> = m.funcs.iter().map(|f| f.id()).collect();
                let gs: Vec<GlobalId> = m.globals.iter().map(|g| g.id()).collect();
                let ms: Vec<MemoryId> = m.memories.iter().map(|g| g.id()).collect();
                let ts: Vec<TableId> = m.tables.iter().map(|g| g.id()).collect();
                match rng.below(4) {
                    0 if !fs.is_empty() => {
                        m.exports.add(&name, *rng.pick(&fs));
                    }
                    1 if !gs.is_empty() => {
                        m.exports.add(&name, *rng.pick(&gs));
                    }
                    2 if !ms.is_empty() => {
                        m.exports.add(&name, *rng.pick(&ms));
                    }
                    3 if !ts.is_empty() => {
                        m.exports.add(&name, *rng.pick(&ts));
                    }
                    _ => {}
                }
                log.push("add-export".into());
            }
            1 => {
                let es: Vec<ExportId> = m.exports.iter().map(|e| e.id()).collect();
                if !es.is_empty() {
                    m.exports.delete(*rng.pick(&es));
                    log.push("delete-export".into());
                }
            }
            2 if in_types.len() > 0 => {
                // new function whose signature is one of the input's types (possibly one that a pass removed
                // as unused a moment ago): results are zero values
                let (ps, rs) = in_types[rng.usize(in_types.len())].clone();
                let args: Vec<LocalId> = ps.iter().map(|t| m.locals.add(*t)).collect();
                let mut fb = FunctionBuilder::new(&mut m.types, &ps, &rs);
                {
                    let mut b = fb.func_body();
                    for r in &rs {
                        match r {
                            ValType::I32 => {
                                b.i32_const(0);
                            }
                            ValType::I64 => {
                                b.i64_const(0);
                            }
                            ValType::F32 => {
                                b.f32_const(0.0);
                            }
                            ValType::F64 => {
                                b.f64_const(0.0);
                            }
                            ValType::V128 => {
                                b.const_(Value::V128(0));
                            }
                            ValType::Ref(t) => {
                                b.ref_null(*t);
                            }
                        }
                    }
                }
                let f = fb.finish(args, &mut m.funcs);
                m.exports.add(&format!("wv_sig_fn_{}", step), f);
                log.push("add-function-with-input-signature".into());
            }
            2 | 3 => {
                // new function through the builder; calls an existing ()->() function if there is one
                let callee = m.funcs.iter().find(|f| {
                    let t = m.types.get(f.ty());
                    t.params().is_empty() && t.results().is_empty() && !deleted_funcs.contains(&f.id())
                }).map(|f| f.id());
                let p = m.locals.add(ValType::I32);
                let l = m.locals.add(ValType::I64);
                // block types of every shape: none, one result, parameters without results, parameters and results
                let t_param = walrus::ir::InstrSeqType::new(&mut m.types, &[ValType::I32], &[]);
                let t_both = walrus::ir::InstrSeqType::new(&mut m.types, &[ValType::I32], &[ValType::I32]);
                let t_two = walrus::ir::InstrSeqType::new(&mut m.types, &[], &[ValType::I32, ValType::I32]);
                let mut fb = FunctionBuilder::new(&mut m.types, &[ValType::I32], &[ValType::I64]);
                {
                    let mut b = fb.func_body();
                    b.local_get(p).drop().i64_const(step as i64).local_set(l);
                    if let Some(c) = callee {
                        b.call(c);
                    }
                    b.block(None, |b| {
                        let me = b.id();
                        b.i32_const(1).br_if(me);
                    });
                    b.i32_const(3).block(t_param, |b| {
                        b.drop();
                    });
                    b.i32_const(4).block(t_both, |b| {
                        b.i32_const(1).binop(walrus::ir::BinaryOp::I32Add);
                    });
                    b.drop();
                    b.block(t_two, |b| {
                        b.i32_const(1).i32_const(2);
                    });
                    b.drop().drop();
                    // a loop with a result and a conditional back edge, put in place with loop_at
                    let at = b.instrs().len();
                    b.loop_at(at, ValType::I32, |lp| {
                        let me = lp.id();
                        lp.i32_const(0).br_if(me).i32_const(7);
                    });
                    b.drop();
                    b.local_get(l);
                }
                let f = fb.finish(vec![p], &mut m.funcs);
                if rng.bool() {
                    m.exports.add(&format!("wv_fn_{}", step), f);
                }
                log.push("add-function".into());
            }
            4 => {
                match rng.below(4) {
                    0 => {
                        let ty = m.types.add(&[ValType::F32], &[]);
                        m.add_import_func("wv", &format!("if{}", step), ty);
                    }
                    1 => {
                        m.add_import_global("wv", &format!("ig{}", step), ValType::I64, false, false);
                    }
                    2 => {
                        m.add_import_table("wv", &format!("it{}", step), false, 1, Some(2), RefType::Funcref);
                    }
                    _ => {
                        m.add_import_memory("wv", &format!("im{}", step), false, false, 1, None, None);
                    }
                }
                log.push("add-import".into());
            }
            5 => {
                match rng.below(3) {
                    0 => {
                        let g = m.globals.add_local(ValType::I32, rng.bool(), false, ConstExpr::Value(Value::I32(step as i32)));
                        if rng.bool() {
                            m.exports.add(&format!("wv_g_{}", step), g);
                        }
                    }
                    1 => {
                        m.memories.add_local(false, false, 1, Some(3), None);
                    }
                    _ => {
                        m.tables.add_local(false, 2, None, RefType::Externref);
                    }
                }
                log.push("add-global/memory/table".into());
            }
            6 => {
                let ms: Vec<(MemoryId, bool)> = m.memories.iter().map(|g| (g.id(), g.memory64)).collect();
                if !ms.is_empty() && rng.bool() {
                    let (mem, is64) = *rng.pick(&ms);
                    let offset = if is64 { ConstExpr::Value(Value::I64(0)) } else { ConstExpr::Value(Value::I32(0)) };
                    let d = m.data.add(DataKind::Active { memory: mem, offset }, vec![1, 2, 3]);
                    m.memories.get_mut(mem).data_segments.insert(d);
                } else {
                    m.data.add(DataKind::Passive, vec![4, 5, 6, step as u8]);
                }
                log.push("add-data".into());
            }
            7 => {
                let fs: Vec<FunctionId> = m.funcs.iter().map(|f| f.id()).filter(|f| !deleted_funcs.contains(f)).collect();
                let items: Vec<FunctionId> = (0..rng.below(3)).filter_map(|_| if fs.is_empty() { None } else { Some(*rng.pick(&fs)) }).collect();
                let kind = if rng.bool() { ElementKind::Passive } else { ElementKind::Declared };
                m.elements.add(kind, ElementItems::Functions(items));
                log.push("add-element".into());
            }
            8 | 9 => {
                let k = insert_markers(m, rng.next());
                log.push(format!("insert-instructions({})", k));
            }
            10 => {
                let cands: Vec<FunctionId> = m.funcs.iter().filter(|f| {
                    let t = m.types.get(f.ty());
                    t.params().is_empty() && t.results().is_empty() && !deleted_funcs.contains(&f.id())
                }).map(|f| f.id()).collect();
                m.start = if cands.is_empty() || rng.chance(1, 3) { None } else { Some(*rng.pick(&cands)) };
                log.push("set-start".into());
            }
            11 => {
                m.name = Some(format!("renamed{}", step));
                let fs: Vec<FunctionId> = m.funcs.iter().map(|f| f.id()).collect();
                for f in fs.iter().take(3) {
                    m.funcs.get_mut(*f).name = Some(format!("wv_name_{}", step));
                }
                log.push("set-names".into());
            }
            12 => {
                match rng.below(3) {
                    0 => m.producers.add_language("wvlang", "1"),
                    1 => m.producers.add_sdk("wvsdk", "2"),
                    _ => m.producers.clear(),
                }
                log.push("edit-producers".into());
            }
            13 => {
                if rng.bool() {
                    m.customs.add(RawCustomSection { name: format!("wv.custom{}", step), data: vec![step as u8; 5] });
                } else {
                    let names: Vec<String> = m.customs.iter().map(|(_, c)| c.name().to_string()).collect();
                    if !names.is_empty() {
                        let n = rng.pick(&names).clone();
                        m.customs.remove_raw(&n);
                    }
                }
                log.push("edit-customs".into());
            }
            _ => {
                // delete an entity of the input that nothing references (import and entity together)
                if let Some(k) = &unref {
                    match rng.below(3) {
                        0 => {
                            let c: Vec<usize> = (0..ids.funcs.len()).filter(|i| !k.funcs.get(*i).copied().unwrap_or(true) && !deleted_funcs.contains(&ids.funcs[*i])).collect();
                            if !c.is_empty() {
                                let id = ids.funcs[*rng.pick(&c)];
                                // a pass may have removed it already; an earlier edit may have started to use it
                                let live = m.funcs.iter().any(|f| f.id() == id);
                                let used_now = !live || m.exports.iter().any(|e| matches!(e.item, ExportItem::Function(f) if f == id))
                                    || m.start == Some(id)
                                    || m.elements.iter().any(|e| matches!(&e.items, ElementItems::Functions(v) if v.contains(&id)))
                                    || m.funcs.iter_local().any(|(_, f)| calls(f, id));
                                if !used_now {
                                    let imp = m.imports.iter().find(|i| matches!(i.kind, ImportKind::Function(f) if f == id)).map(|i| i.id());
                                    if let Some(imp) = imp {
                                        m.imports.delete(imp);
                                    }
                                    m.funcs.delete(id);
                                    deleted_funcs.push(id);
                                    log.push("delete-unreferenced-function".into());
                                }
                            }
                        }
                        1 => {
                            let c: Vec<usize> = (0..ids.globals.len()).filter(|i| !k.globals.get(*i).copied().unwrap_or(true)).collect();
                            if !c.is_empty() {
                                let id = ids.globals[*rng.pick(&c)];
                                let live = m.globals.iter().any(|g| g.id() == id);
                                let used_now = m.exports.iter().any(|e| matches!(e.item, ExportItem::Global(g) if g == id));
                                if live && !used_now && !pinned_globals.contains(&id) {
                                    let imp = m.imports.iter().find(|i| matches!(i.kind, ImportKind::Global(g) if g == id)).map(|i| i.id());
                                    if let Some(imp) = imp {
                                        m.imports.delete(imp);
                                    }
                                    m.globals.delete(id);
                                    log.push("delete-unreferenced-global".into());
                                }
                            }
                        }
                        _ => {
                            let c: Vec<usize> = (0..ids.data.len()).filter(|i| !k.datas.get(*i).copied().unwrap_or(true)).collect();
                            if !c.is_empty() {
                                let id = ids.data[*rng.pick(&c)];
                                let live = m.data.iter().any(|d| d.id() == id);
                                let passive = live && m.data.get(id).is_passive();
                                if passive && !pinned_datas.contains(&id) {
                                    m.data.delete(id);
                                    log.push("delete-unreferenced-passive-data".into());
                                }
                            }
                        }
                    }
                }
            }
        }
    }
}

fn calls(f: &LocalFunction, target: FunctionId) -> bool {
    use walrus::ir::{dfs_in_order, Visitor};
    struct V(FunctionId, bool);
    impl<'a> Visitor<'a> for V {
        fn visit_function_id(&mut self, f: &FunctionId) {
            if *f == self.0 {
                self.1 = true;
            }
        }
    }
    let mut v = V(target, false);
    dfs_in_order(&mut v, f, f.entry_block());
    v.1
}

pub fn run(input: &[u8], scn: &str, rec: &mut Rec) {
    // "edit;cfg=26;seed=5"
    let mut cfg = crate::util::DEFAULT_CFG;
    let mut seed = 0u64;
    for p in scn.split(';').skip(1) {
        if let Some(v) = p.strip_prefix("cfg=") {
            cfg = v.parse().unwrap_or(cfg);
        } else if let Some(v) = p.strip_prefix("seed=") {
            seed = v.parse().unwrap_or(0);
        }
    }
    rec.push_n("cfg", cfg as u64);
    let (mut m, ids) = match guarded(|| parse(input, cfg)) {
        Ok(Some(x)) => x,
        Ok(None) => {
            rec.push_s("parse", "err");
            return;
        }
        Err(p) => {
            rec.push_s("parse", "panic");
            rec.push_s("panic.parse", &p);
            return;
        }
    };
    rec.push_s("parse", "ok");
    let mut rng = Rng::new(seed ^ wv_gen::rng::fnv64(input));
    let mut log = Vec::new();
    if scn.contains("gcfirst") {
        // a pass runs first, the edits work on what it left
        if let Err(p) = guarded(|| passes::gc::run(&mut m)) {
            rec.push_s("panic.gcfirst", &p);
            return;
        }
        log.push("gc-first".into());
    }
    if let Err(p) = guarded(|| apply_edits(&mut m, &ids, input, &mut rng, &mut log)) {
        rec.push_s("panic.edit", &format!("{} (after edits: {})", p, log.join(",")));
        rec.push_s("edits", &log.join(","));
        return;
    }
    rec.push_s("edits", &log.join(","));
    match guarded(|| m.emit_wasm()) {
        Ok(o) => rec.push_b("out.edited", &o),
        Err(p) => rec.push_s("panic.edited", &p),
    }
    match guarded(|| {
        passes::gc::run(&mut m);
        m.emit_wasm()
    }) {
        Ok(o) => rec.push_b("out.edited-gc", &o),
        Err(p) => rec.push_s("panic.edited-gc", &p),
    }
}

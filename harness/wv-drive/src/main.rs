//! Subject process: the only binary that links walrus. Runs the cases of one
//! shard of one property's workload and appends begin/end records to the event
//! log (begin is flushed before walrus is invoked, so a crash is attributable).

mod probe;
mod scen_build;
mod scen_cfg;
mod scen_edit;
mod scen_gate;
mod scen_hist;
mod scen_par;
mod scen_replace;
mod scen_rt;
mod scen_visit;
mod util;

use wv_gen::log::{Rec, Writer};
use wv_gen::workload::{self, CaseDesc, Tier};

fn arg(args: &[String], name: &str) -> Option<String> {
    args.iter().position(|a| a == name).and_then(|i| args.get(i + 1).cloned())
}

fn run_case(idx: u64, c: &CaseDesc, w: &mut Writer) {
    let (input, mat_panic) = match util::guarded(|| workload::materialize(&c.spec)) {
        Ok(i) => (i, None),
        Err(p) => (None, Some(p)),
    };
    let mut begin = Rec::new("begin").n("idx", idx).s("spec", &c.spec).s("scenario", &c.scenario);
    match &input {
        Some(b) => begin.push_b("input", b),
        None => begin.push_s("noinput", mat_panic.as_deref().unwrap_or("1")),
    }
    w.write(&begin);
    let mut end = Rec::new("end").n("idx", idx);
    let t0 = util::thread_cpu_ns();
    if let Some(input) = &input {
        let kind = c.scenario.split(|ch| ch == ':' || ch == ';').next().unwrap_or("");
        match kind {
            "rt" => scen_rt::run(input, &c.scenario, &mut end),
            "gate" => scen_gate::run(input, &mut end),
            "cfg" => scen_cfg::run(input, &mut end),
            "hist" => scen_hist::run(input, &mut end),
            "edit" => scen_edit::run(input, &c.scenario, &mut end),
            "par" => scen_par::run(input, &c.scenario, &mut end),
            "replace" => scen_replace::run(input, &mut end),
            "build" => scen_build::run(input, &mut end),
            "visit" => scen_visit::run(input, &mut end),
            other => end.push_s("harness_error", &format!("unknown scenario {}", other)),
        }
    } else {
        end.push_s("harness_error", "input could not be materialized");
    }
    end.push_n("cpu_ns", util::thread_cpu_ns() - t0);
    w.write(&end);
}

fn main() {
    let args: Vec<String> = std::env::args().collect();
    util::install_panic_hook();
    let out = arg(&args, "--out").expect("--out");
    if args.get(1).map(|s| s.as_str()) == Some("dump") {
        // materialize an input to a file (used to hand inputs to the Miri flavour, which must not run the generators)
        let spec = arg(&args, "--spec").expect("--spec");
        match workload::materialize(&spec) {
            Some(b) => std::fs::write(&out, b).expect("write"),
            None => std::process::exit(3),
        }
        return;
    }
    let mut w = Writer::create(&out).expect("open log");
    if args.get(1).map(|s| s.as_str()) == Some("replay") {
        let c = CaseDesc { spec: arg(&args, "--spec").expect("--spec"), scenario: arg(&args, "--scenario").expect("--scenario") };
        run_case(0, &c, &mut w);
        return;
    }
    let prop = arg(&args, "--prop").expect("--prop");
    let tier = Tier::parse(&arg(&args, "--tier").unwrap_or_else(|| "quick".into()));
    let seed: u64 = arg(&args, "--seed").and_then(|s| s.parse().ok()).unwrap_or(1);
    let shard: u64 = arg(&args, "--shard").and_then(|s| s.parse().ok()).unwrap_or(0);
    let nshards: u64 = arg(&args, "--nshards").and_then(|s| s.parse().ok()).unwrap_or(1);
    let start: u64 = arg(&args, "--start").and_then(|s| s.parse().ok()).unwrap_or(0);
    let cases = workload::cases(&prop, tier, seed);
    if args.get(1).map(|s| s.as_str()) == Some("count") {
        println!("{}", cases.len());
        return;
    }
    for (i, c) in cases.iter().enumerate() {
        let i = i as u64;
        if i % nshards != shard || i < start {
            continue;
        }
        run_case(i, c, &mut w);
    }
    w.write(&Rec::new("shard_done").n("shard", shard).n("cases", cases.len() as u64));
}

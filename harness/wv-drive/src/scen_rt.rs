//! Scenario "rt": parse -> {emit, second emit, GC + emit, GC twice + emit,
//! re-parse of the own output + emit, parse with shifted arena ids + emit},
//! optionally with the harness probe section and the on_parse observer.
//! Every step runs under catch_unwind; outputs and panics go to the event log.

use crate::probe::{self, OnParseLog, Probe, ProbeOut};
use crate::util::{cfg_from_mask, guarded, DEFAULT_CFG};
use std::sync::{Arc, Mutex};
use wv_gen::log::Rec;

pub struct RtOpts {
    pub cfg: u32,
    pub steps: Vec<String>,
    pub shift: u64,
}

impl RtOpts {
    pub fn parse(scn: &str) -> RtOpts {
        // "rt:emit,gc,probe;cfg=26;shift=3"
        let body = scn.strip_prefix("rt:").unwrap_or("");
        let mut parts = body.split(';');
        let steps = parts.next().unwrap_or("").split(',').filter(|s| !s.is_empty()).map(|s| s.to_string()).collect();
        let mut o = RtOpts { cfg: DEFAULT_CFG, steps, shift: 3 };
        for p in parts {
            if let Some(v) = p.strip_prefix("cfg=") {
                o.cfg = v.parse().unwrap_or(DEFAULT_CFG);
            } else if let Some(v) = p.strip_prefix("shift=") {
                o.shift = v.parse().unwrap_or(3);
            }
        }
        o
    }
    fn has(&self, s: &str) -> bool {
        self.steps.iter().any(|x| x == s)
    }
}

struct Parsed {
    module: walrus::Module,
    onparse: Arc<Mutex<OnParseLog>>,
}

fn parse_with(input: &[u8], cfg_mask: u32, observe: bool, describe: bool) -> Result<Result<Parsed, String>, String> {
    let onparse = Arc::new(Mutex::new(OnParseLog::default()));
    let op2 = onparse.clone();
    let mut cfg = cfg_from_mask(cfg_mask);
    if observe {
        cfg.on_parse(move |m, ids| {
            let mut l = op2.lock().unwrap();
            probe::observe_on_parse(m, ids, &mut l, describe);
            Ok(())
        });
    }
    guarded(|| cfg.parse(input)).map(|r| match r {
        Ok(module) => Ok(Parsed { module, onparse }),
        Err(e) => Err(format!("{:#}", e).lines().next().unwrap_or("").chars().take(300).collect()),
    })
}

fn emit_into(rec: &mut Rec, label: &str, m: &mut walrus::Module) -> Option<Vec<u8>> {
    match guarded(|| m.emit_wasm()) {
        Ok(out) => {
            rec.push_b(&format!("out.{}", label), &out);
            Some(out)
        }
        Err(p) => {
            rec.push_s(&format!("panic.{}", label), &p);
            None
        }
    }
}

fn attach_probe(p: &mut Parsed, roots: Option<(&[u8], &mut Rec)>) -> Arc<Mutex<ProbeOut>> {
    let out = Arc::new(Mutex::new(ProbeOut::default()));
    let ids = p.onparse.lock().unwrap().ids.clone();
    let mut probe = Probe::capture(&p.module, &ids, out.clone());
    probe.roots = vec![];
    if let Some((input, rec)) = roots {
        // custom-section roots: a seeded choice of entities by input index, logged for the judge
        let mut rng = wv_gen::rng::Rng::new(wv_gen::rng::fnv64(input) ^ 0x7007);
        let mut s = String::new();
        if !ids.funcs.is_empty() && rng.chance(2, 3) {
            let i = rng.usize(ids.funcs.len());
            probe.roots.push(probe::LiveId::F(ids.funcs[i]));
            s.push_str(&format!("F {}\n", i));
        }
        if !ids.globals.is_empty() && rng.chance(1, 2) {
            let i = rng.usize(ids.globals.len());
            probe.roots.push(probe::LiveId::G(ids.globals[i]));
            s.push_str(&format!("G {}\n", i));
        }
        if !ids.tables.is_empty() && rng.chance(1, 3) {
            let i = rng.usize(ids.tables.len());
            probe.roots.push(probe::LiveId::T(ids.tables[i]));
            s.push_str(&format!("T {}\n", i));
        }
        if !ids.memories.is_empty() && rng.chance(1, 3) {
            let i = rng.usize(ids.memories.len());
            probe.roots.push(probe::LiveId::M(ids.memories[i]));
            s.push_str(&format!("M {}\n", i));
        }
        rec.push_s("gc.roots", &s);
    }
    p.module.customs.add(probe);
    out
}

pub const MARKER: i64 = 0x4d41_524b_4552_5f5f;

/// Edit through the public API: splice `i64.const MARKER; drop` (type-neutral) into seeded positions of
/// seeded instruction sequences of every local function. Returns the number of insertions.
pub fn insert_markers(m: &mut walrus::Module, seed: u64) -> u64 {
    use walrus::ir::{self, Visitor};
    struct Seqs(Vec<ir::InstrSeqId>);
    impl<'a> Visitor<'a> for Seqs {
        fn start_instr_seq(&mut self, s: &'a ir::InstrSeq) {
            self.0.push(s.id());
        }
    }
    let mut rng = wv_gen::rng::Rng::new(seed ^ 0xED17);
    let mut n = 0;
    for (_, f) in m.funcs.iter_local_mut() {
        let mut v = Seqs(vec![]);
        ir::dfs_in_order(&mut v, f, f.entry_block());
        for sid in v.0 {
            if !rng.chance(1, 2) {
                continue;
            }
            // two public ways to reach a sequence: the builder, or the sequence itself
            if rng.bool() {
                let mut b = f.builder_mut().instr_seq(sid);
                let len = b.instrs().len();
                let pos = rng.usize(len + 1);
                b.const_at(pos, ir::Value::I64(MARKER));
                b.drop_at(pos + 1);
            } else {
                let seq = f.block_mut(sid);
                let pos = rng.usize(seq.instrs.len() + 1);
                seq.instrs.insert(pos, (ir::Const { value: ir::Value::I64(MARKER) }.into(), Default::default()));
                seq.instrs.insert(pos + 1, (ir::Drop {}.into(), Default::default()));
            }
            n += 1;
        }
    }
    n
}

/// A transformation that moves original instructions into sequences it creates: for some block, loop or if arm the
/// instructions are moved to a new sequence of the same type and every reference to the old sequence (the construct
/// itself and the branches to it) is redirected. The emitted instructions are the same; the new sequences have no
/// input location for their `end`.
pub fn resequence(m: &mut walrus::Module, seed: u64) -> u64 {
    use walrus::ir::{self, Visitor, VisitorMut};
    struct Seqs(Vec<ir::InstrSeqId>);
    impl<'a> Visitor<'a> for Seqs {
        fn start_instr_seq(&mut self, s: &'a ir::InstrSeq) {
            self.0.push(s.id());
        }
    }
    struct Redirect(ir::InstrSeqId, ir::InstrSeqId);
    impl VisitorMut for Redirect {
        fn visit_instr_seq_id_mut(&mut self, id: &mut ir::InstrSeqId) {
            if *id == self.0 {
                *id = self.1;
            }
        }
    }
    let mut rng = wv_gen::rng::Rng::new(seed ^ 0x5E9);
    let mut n = 0;
    for (_, f) in m.funcs.iter_local_mut() {
        let mut v = Seqs(vec![]);
        ir::dfs_in_order(&mut v, f, f.entry_block());
        let entry = f.entry_block();
        let cands: Vec<ir::InstrSeqId> = v.0.into_iter().filter(|s| *s != entry).collect();
        if cands.is_empty() || cands.len() > 400 || !rng.chance(2, 3) {
            continue;
        }
        for _ in 0..1 + rng.usize(2) {
            let old = cands[rng.usize(cands.len())];
            // (a sequence picked twice is no longer part of the function the second time: nothing happens)
            let ty = f.block(old).ty;
            let new = f.builder_mut().dangling_instr_seq(ty).id();
            let instrs = std::mem::take(&mut f.block_mut(old).instrs);
            f.block_mut(new).instrs = instrs;
            ir::dfs_pre_order_mut(&mut Redirect(old, new), f, entry);
            n += 1;
        }
    }
    n
}

/// Edit through the public API: an active data segment, an active element segment, exports and a start
/// function that the input did not have. Returns a description of what was added.
pub fn add_roots(m: &mut walrus::Module, seed: u64) -> String {
    use walrus::ir::Value;
    use walrus::{ConstExpr, DataKind, ElementItems, ElementKind, ExportItem};
    let mut rng = wv_gen::rng::Rng::new(seed);
    let mut what = Vec::new();
    let mems: Vec<(walrus::MemoryId, bool)> = m.memories.iter().map(|x| (x.id(), x.memory64)).collect();
    if !mems.is_empty() && rng.chance(3, 4) {
        let (mem, is64) = mems[rng.usize(mems.len())];
        let at = rng.below(24) as i64;
        let offset = ConstExpr::Value(if is64 { Value::I64(at) } else { Value::I32(at as i32) });
        let id = m.data.add(DataKind::Active { memory: mem, offset }, vec![0xA5, 0x5A, at as u8, 0]);
        // the per-memory list is public bookkeeping that a caller may or may not keep up to date
        if rng.bool() {
            m.memories.get_mut(mem).data_segments.insert(id);
        }
        what.push("active-data");
    }
    let tabs: Vec<(walrus::TableId, bool)> = m.tables.iter().filter(|t| t.element_ty == walrus::RefType::Funcref).map(|t| (t.id(), t.table64)).collect();
    let funcs: Vec<walrus::FunctionId> = m.funcs.iter().map(|f| f.id()).collect();
    if !tabs.is_empty() && !funcs.is_empty() && rng.chance(3, 4) {
        let (t, is64) = tabs[rng.usize(tabs.len())];
        let f = funcs[rng.usize(funcs.len())];
        let offset = ConstExpr::Value(if is64 { Value::I64(0) } else { Value::I32(0) });
        let id = m.elements.add(ElementKind::Active { table: t, offset }, ElementItems::Functions(vec![f]));
        m.tables.get_mut(t).elem_segments.insert(id);
        what.push("active-elem");
    }
    if rng.chance(1, 2) {
        // an imported table created after the local ones (and exported, so that it stays)
        let (t, _) = m.add_import_table("wv.roots", "t", false, 1, None, walrus::RefType::Funcref);
        m.exports.add("wv_root_t", t);
        what.push("import-table");
    }
    let exported: std::collections::HashSet<walrus::FunctionId> = m.exports.iter().filter_map(|e| if let ExportItem::Function(f) = e.item { Some(f) } else { None }).collect();
    let unexported: Vec<walrus::FunctionId> = funcs.iter().copied().filter(|f| !exported.contains(f)).collect();
    if !unexported.is_empty() && rng.chance(1, 2) {
        m.exports.add("wv_root_f", unexported[rng.usize(unexported.len())]);
        what.push("export-func");
    }
    let globals: Vec<walrus::GlobalId> = m.globals.iter().map(|g| g.id()).collect();
    if !globals.is_empty() && rng.chance(1, 3) {
        m.exports.add("wv_root_g", globals[rng.usize(globals.len())]);
        what.push("export-global");
    }
    if rng.chance(1, 2) {
        // a function made with the builder (several results: its entry sequence has a multi-value type), exported
        let results: &[walrus::ValType] = if rng.bool() { &[walrus::ValType::I32, walrus::ValType::I64] } else { &[walrus::ValType::F64, walrus::ValType::I32, walrus::ValType::I32] };
        // (with a parameter, so that the signature of the entry sequence is not the function's own)
        let param = m.locals.add(walrus::ValType::I32);
        // a block typed by the id of a type that has no parameters and one result (nothing else refers to that type)
        let t_one = m.types.add(&[], &[walrus::ValType::F32]);
        let mut fb = walrus::FunctionBuilder::new(&mut m.types, &[walrus::ValType::I32], results);
        {
            let mut b = fb.func_body();
            b.block(t_one, |bb| {
                bb.f32_const(2.5);
            });
            b.drop();
            for r in results {
                match r {
                    walrus::ValType::I32 => b.i32_const(11),
                    walrus::ValType::I64 => b.i64_const(12),
                    _ => b.f64_const(1.5),
                };
            }
        }
        let f = fb.finish(vec![param], &mut m.funcs);
        m.exports.add("wv_root_built", f);
        what.push("built-multi-value-func");
    }
    if m.start.is_none() && rng.chance(1, 4) {
        let cands: Vec<walrus::FunctionId> = m.funcs.iter().filter(|f| { let t = m.types.get(f.ty()); t.params().is_empty() && t.results().is_empty() }).map(|f| f.id()).collect();
        if !cands.is_empty() {
            m.start = Some(cands[rng.usize(cands.len())]);
            what.push("start");
        }
    }
    what.join(",")
}

fn log_probe(rec: &mut Rec, label: &str, out: &Arc<Mutex<ProbeOut>>) {
    let o = out.lock().unwrap();
    rec.push_n(&format!("ct.calls.{}", label), o.transform_calls);
    rec.push_n(&format!("probe.data_calls.{}", label), o.data_calls);
    if o.transform_calls > 0 {
        rec.push_n(&format!("ct.start.{}", label), o.code_section_start as u64);
        let mut s = String::new();
        for (a, b) in &o.instruction_map {
            s.push_str(&format!("{}:{}\n", a, b));
        }
        rec.push_s(&format!("ct.map.{}", label), &s);
        let mut s = String::new();
        for (f, a, b) in &o.function_ranges {
            if *f == usize::MAX {
                s.push_str(&format!("-:{}:{}\n", a, b));
            } else {
                s.push_str(&format!("{}:{}:{}\n", f, a, b));
            }
        }
        rec.push_s(&format!("ct.ranges.{}", label), &s);
    }
}

pub fn run(input: &[u8], scn: &str, rec: &mut Rec) {
    let o = RtOpts::parse(scn);
    rec.push_n("cfg", o.cfg as u64);
    let probe = o.has("probe");
    let describe = o.has("onparse");
    let observe = probe || describe || o.has("count");
    // a quarter of the cases: a parse that fails inside the code section runs on this thread first
    if wv_gen::rng::fnv64(input) % 4 == 1 {
        let failed = crate::util::failed_parse_first(input, o.cfg);
        rec.push_n("failed-parse-first", failed as u64);
    }
    // --- first parse
    let mut p = match parse_with(input, o.cfg, observe, describe) {
        Err(pan) => {
            rec.push_s("parse", "panic");
            rec.push_s("panic.parse", &pan);
            return;
        }
        Ok(Err(e)) => {
            rec.push_s("parse", "err");
            rec.push_s("parse.err", &e);
            return;
        }
        Ok(Ok(p)) => p,
    };
    rec.push_s("parse", "ok");
    if observe {
        let l = p.onparse.lock().unwrap();
        rec.push_n("onparse.calls", l.calls);
        if describe {
            rec.push_s("onparse.lines", &l.lines.join("\n"));
            rec.push_s("onparse.localnames", &l.local_names.join("\n"));
        }
    }
    if o.has("addimp") {
        // an edit that renumbers every index space: one new import of each kind (imports come first)
        let r = guarded(|| {
            let ty = p.module.types.add(&[walrus::ValType::F32], &[]);
            let (f, _) = p.module.add_import_func("wv.add", "f", ty);
            let (g, _) = p.module.add_import_global("wv.add", "g", walrus::ValType::I64, false, false);
            let (t, _) = p.module.add_import_table("wv.add", "t", false, 1, Some(2), walrus::RefType::Funcref);
            let (m, _) = p.module.add_import_memory("wv.add", "m", false, false, 1, None, None);
            p.module.funcs.get_mut(f).name = Some("wv_added_f".into());
            p.module.globals.get_mut(g).name = Some("wv_added_g".into());
            p.module.tables.get_mut(t).name = Some("wv_added_t".into());
            p.module.memories.get_mut(m).name = Some("wv_added_m".into());
            // a tool recording itself after walrus did (walrus is then no longer the last processed-by value)
            p.module.producers.add_processed_by("wv-tool", "1.0");
            p.module.producers.add_language("wv-lang", "7");
            p.module.producers.add_sdk("wv-sdk", "0.1");
            // a raw section under a name walrus reserves for DWARF: such names are never written from the custom
            // section arena (what is written under them comes from the debug data, if DWARF generation is on)
            if wv_gen::rng::fnv64(input) % 2 == 0 {
                p.module.customs.add(walrus::RawCustomSection { name: ".debug_wv_added".into(), data: vec![1, 2, 3] });
            }
        });
        if let Err(pan) = r {
            rec.push_s("panic.addimp", &pan);
        }
        if let Some(first) = emit_into(rec, "addimp", &mut p.module) {
            // the edited output is walrus's own output too: it must be a fixpoint
            match parse_with(&first, o.cfg, false, false) {
                Err(pan) => rec.push_s("panic.addimp-fix.parse", &pan),
                Ok(Err(e)) => rec.push_s("err.addimp-fix.parse", &e),
                Ok(Ok(mut p2)) => {
                    emit_into(rec, "addimp-fix", &mut p2.module);
                }
            }
        }
        return;
    }
    if o.has("emit") {
        if o.has("addfn") {
            // a function that did not come from the input (no original code range), large enough to be emitted in
            // front of smaller parsed functions, exported so that it stays
            let r = guarded(|| {
                let mut fb = walrus::FunctionBuilder::new(&mut p.module.types, &[], &[]);
                {
                    let mut b = fb.func_body();
                    for k in 0..(20 + (wv_gen::rng::fnv64(input) % 60) as i32) {
                        b.i32_const(k);
                        b.drop();
                    }
                }
                let f = fb.finish(vec![], &mut p.module.funcs);
                p.module.exports.add("wv_added_fn", f);
            });
            match r {
                Ok(()) => rec.push_n("addfn", 1),
                Err(pan) => rec.push_s("panic.addfn", &pan),
            }
        }
        if o.has("ghostimp") {
            // an imported function whose import entry is taken out by hand: it stays in the function arena, unused
            // and unemitted, and must not count as anything
            let r = guarded(|| {
                let ty = p.module.types.add(&[], &[]);
                let (_, imp) = p.module.add_import_func("wv", "ghost", ty);
                p.module.imports.delete(imp);
            });
            match r {
                Ok(()) => rec.push_n("ghostimp", 1),
                Err(pan) => rec.push_s("panic.ghostimp", &pan),
            }
        }
        if o.has("ins") {
            match guarded(|| insert_markers(&mut p.module, wv_gen::rng::fnv64(input))) {
                Ok(n) => rec.push_n("inserted", n),
                Err(pan) => rec.push_s("panic.insert", &pan),
            }
        }
        if o.has("reseq") {
            match guarded(|| resequence(&mut p.module, wv_gen::rng::fnv64(input))) {
                Ok(n) => rec.push_n("resequenced", n),
                Err(pan) => rec.push_s("panic.reseq", &pan),
            }
        }
        let pr = if probe { Some(attach_probe(&mut p, None)) } else { None };
        let first = emit_into(rec, "emit", &mut p.module);
        if let Some(pr) = &pr {
            log_probe(rec, "emit", pr);
        }
        if o.has("emit2") {
            emit_into(rec, "emit2", &mut p.module);
        }
        if o.has("reedit") {
            // the same logical module reached two ways: (emit, edit, emit) on this Module vs (fresh parse, same edit, emit)
            let seed = wv_gen::rng::fnv64(input) ^ 0x5EED;
            match guarded(|| insert_markers(&mut p.module, seed)) {
                Ok(n) => rec.push_n("reedit.inserted", n),
                Err(pan) => rec.push_s("panic.reedit.insert", &pan),
            }
            emit_into(rec, "reedit", &mut p.module);
            match parse_with(input, o.cfg, false, false) {
                Err(pan) => rec.push_s("panic.reedit.parse", &pan),
                Ok(Err(e)) => rec.push_s("err.reedit.parse", &e),
                Ok(Ok(mut p3)) => {
                    let _ = guarded(|| insert_markers(&mut p3.module, seed));
                    emit_into(rec, "reedit_fresh", &mut p3.module);
                }
            }
        }
        if o.has("emptied") {
            // after the first emission everything that keeps code alive is taken away (exports, start function) and the
            // GC pass runs: where no function is left, the next emission has no code to describe
            let r = guarded(|| {
                let ids: Vec<walrus::ExportId> = p.module.exports.iter().map(|e| e.id()).collect();
                for id in ids {
                    p.module.exports.delete(id);
                }
                p.module.start = None;
                walrus::passes::gc::run(&mut p.module);
            });
            match r {
                Err(pan) => rec.push_s("panic.emptied.gc", &pan),
                Ok(()) => {
                    if let Some(pr) = &pr {
                        let ids = p.onparse.lock().unwrap().ids.clone();
                        if p.module.customs.delete_typed::<Probe>().is_some() {
                            p.module.customs.add(Probe::capture(&p.module, &ids, pr.clone()));
                        }
                        *pr.lock().unwrap() = ProbeOut::default();
                    }
                    if wv_gen::rng::fnv64(input) % 2 == 0 {
                        // ... and a function that never had an input location takes their place
                        let _ = guarded(|| {
                            let mut fb = walrus::FunctionBuilder::new(&mut p.module.types, &[], &[]);
                            fb.func_body().i32_const(5).drop();
                            let f = fb.finish(vec![], &mut p.module.funcs);
                            p.module.exports.add("wv_only_built", f);
                        });
                        rec.push_n("emptied.built", 1);
                    }
                    rec.push_n("emptied.local_funcs", p.module.funcs.iter_local().count() as u64);
                    emit_into(rec, "emptied", &mut p.module);
                    if let Some(pr) = &pr {
                        log_probe(rec, "emptied", pr);
                    }
                }
            }
        }
        if o.has("fix") {
            if let Some(first) = first {
                match parse_with(&first, o.cfg, false, false) {
                    Err(pan) => rec.push_s("panic.fix.parse", &pan),
                    Ok(Err(e)) => rec.push_s("err.fix.parse", &e),
                    Ok(Ok(mut p2)) => {
                        emit_into(rec, "fix", &mut p2.module);
                    }
                }
            }
        }
    }
    drop(p);
    if o.has("shift") {
        // perturb arena ids (and hence every id-keyed hash) before parsing again
        let keep: Vec<id_arena::Arena<u8>> = (0..o.shift).map(|_| id_arena::Arena::new()).collect();
        match parse_with(input, o.cfg, false, false) {
            Err(pan) => rec.push_s("panic.shift.parse", &pan),
            Ok(Err(e)) => rec.push_s("err.shift.parse", &e),
            Ok(Ok(mut p2)) => {
                emit_into(rec, "shift", &mut p2.module);
            }
        }
        drop(keep);
    }
    if o.has("gc") {
        match parse_with(input, o.cfg, observe, false) {
            Err(pan) => rec.push_s("panic.gc.parse", &pan),
            Ok(Err(e)) => rec.push_s("err.gc.parse", &e),
            Ok(Ok(mut p2)) => {
                if o.has("addroots") {
                    // new roots made through the public API before the pass runs; the module as it stands
                    // after the edit ("pre") is the reference the pass is judged against
                    match guarded(|| add_roots(&mut p2.module, wv_gen::rng::fnv64(input) ^ 0xADD2)) {
                        Ok(what) => rec.push_s("addroots", &what),
                        Err(pan) => rec.push_s("panic.addroots", &pan),
                    }
                    if emit_into(rec, "pre", &mut p2.module).is_none() {
                        return;
                    }
                }
                let pr = if probe { Some(attach_probe(&mut p2, if o.has("roots") { Some((input, &mut *rec)) } else { None })) } else { None };
                // (for "uselocal": which locals carry a generated name, noted before the pass runs)
                let mut picked: Vec<(walrus::LocalId, usize, String)> = Vec::new();
                if o.has("uselocal") {
                    for l in p2.module.locals.iter() {
                        if let Some(n) = &l.name {
                            let mut it = n.strip_prefix("$l_").unwrap_or("").split('_');
                            if let (Some(Ok(f)), Some(Ok(_li)), None) = (it.next().map(|x| x.parse::<usize>()), it.next().map(|x| x.parse::<usize>()), it.next()) {
                                picked.push((l.id(), f, n.clone()));
                            }
                        }
                    }
                }
                match guarded(|| walrus::passes::gc::run(&mut p2.module)) {
                    Err(pan) => rec.push_s("panic.gc.run", &pan),
                    Ok(()) => {
                        // the probe must describe the ids that are live after the pass
                        if let Some(pr) = &pr {
                            let ids = p2.onparse.lock().unwrap().ids.clone();
                            if let Some(old) = p2.module.customs.delete_typed::<Probe>() {
                                let mut np = Probe::capture(&p2.module, &ids, pr.clone());
                                np.roots = old.roots.clone();
                                p2.module.customs.add(np);
                            }
                        }
                        let gc_out = emit_into(rec, "gc", &mut p2.module);
                        if let Some(pr) = &pr {
                            log_probe(rec, "gc", pr);
                        }
                        if o.has("uselocal") {
                            // the history goes on: after the pass an edit starts using locals that no body mentioned so
                            // far (their names, "$l_<function>_<index>" in generated modules, say where they belong), and
                            // the module is emitted again - the locals are emitted now, so are their names
                            let ids = p2.onparse.lock().unwrap().ids.clone();
                            let mut lines = Vec::new();
                            let r = guarded(|| {
                                let mut k = 0i64;
                                for (lid, f, name) in &picked {
                                    if k >= 6 {
                                        break;
                                    }
                                    let fid = match ids.funcs.get(*f) {
                                        Some(x) => *x,
                                        None => continue,
                                    };
                                    if !p2.module.funcs.iter_local().any(|(id, _)| id == fid) {
                                        continue;
                                    }
                                    let lf = p2.module.funcs.get_mut(fid).kind.unwrap_local_mut();
                                    let mut b = lf.builder_mut().func_body();
                                    b.const_at(0, walrus::ir::Value::I64(0x77AA_0000 + k));
                                    b.drop_at(1);
                                    b.local_get_at(2, *lid);
                                    b.drop_at(3);
                                    lines.push(format!("{} {}", k, name));
                                    k += 1;
                                }
                            });
                            match r {
                                Ok(()) => {
                                    rec.push_s("uselocal", &lines.join("\n"));
                                    emit_into(rec, "gcuse", &mut p2.module);
                                }
                                Err(pan) => rec.push_s("panic.uselocal", &pan),
                            }
                        }
                        if o.has("fix") {
                            // the output of the pass is walrus's own output too
                            if let Some(first) = gc_out {
                                match parse_with(&first, o.cfg, false, false) {
                                    Err(pan) => rec.push_s("panic.gc-fix.parse", &pan),
                                    Ok(Err(e)) => rec.push_s("err.gc-fix.parse", &e),
                                    Ok(Ok(mut p3)) => {
                                        emit_into(rec, "gc-fix", &mut p3.module);
                                    }
                                }
                            }
                        }
                        if o.has("emit2") {
                            emit_into(rec, "gcemit2", &mut p2.module);
                        }
                        if o.has("gc2") {
                            match guarded(|| walrus::passes::gc::run(&mut p2.module)) {
                                Err(pan) => rec.push_s("panic.gc2.run", &pan),
                                Ok(()) => {
                                    emit_into(rec, "gc2", &mut p2.module);
                                }
                            }
                        }
                    }
                }
            }
        }
    }
}

//! Scenario "cfg" (C14): the same input under all 2^7 combinations of the
//! boolean configuration switches; plus repeated round trips under the default
//! configuration (producers model). Logs every output and the number of times
//! the on_parse callback ran.

use crate::util::{cfg_from_mask, guarded, DEFAULT_CFG};
use std::sync::atomic::{AtomicU64, Ordering};
use std::sync::Arc;
use wv_gen::log::Rec;

pub fn run(input: &[u8], rec: &mut Rec) {
    for mask in (0u32..128).chain([1 | 512, 27 | 512, 91 | 512, 19 | 512]) {
        let calls = Arc::new(AtomicU64::new(0));
        let c2 = calls.clone();
        let mut cfg = cfg_from_mask(mask);
        cfg.on_parse(move |_, _| {
            c2.fetch_add(1, Ordering::SeqCst);
            Ok(())
        });
        match guarded(|| cfg.parse(input)) {
            Err(p) => {
                rec.push_s(&format!("parse.{}", mask), "panic");
                rec.push_s(&format!("panic.parse.{}", mask), &p);
            }
            Ok(Err(_)) => rec.push_s(&format!("parse.{}", mask), "err"),
            Ok(Ok(mut m)) => {
                rec.push_s(&format!("parse.{}", mask), "ok");
                match guarded(|| m.emit_wasm()) {
                    Ok(out) => rec.push_b(&format!("out.{}", mask), &out),
                    Err(p) => rec.push_s(&format!("panic.emit.{}", mask), &p),
                }
            }
        }
        rec.push_n(&format!("onparse.{}", mask), calls.load(Ordering::SeqCst));
    }
    // one configuration value used for four parses of the same input; its callback rejects the module the first
    // time it runs and accepts it afterwards: every parse that succeeds must have run the callback exactly once
    {
        let calls = Arc::new(AtomicU64::new(0));
        let c2 = calls.clone();
        let mut cfg = cfg_from_mask(DEFAULT_CFG);
        cfg.on_parse(move |_, _| {
            if c2.fetch_add(1, Ordering::SeqCst) == 0 {
                anyhow::bail!("rejected by the callback")
            }
            Ok(())
        });
        let mut line = String::new();
        for _ in 0..4 {
            let before = calls.load(Ordering::SeqCst);
            let r = match guarded(|| cfg.parse(input).map(|_| ())) {
                Ok(Ok(())) => "ok",
                Ok(Err(_)) => "err",
                Err(_) => "panic",
            };
            line.push_str(&format!("{}:{} ", r, calls.load(Ordering::SeqCst) - before));
        }
        rec.push_s("reuse", line.trim());
    }
    // repeated round trips, default configuration
    let mut cur = input.to_vec();
    for round in 1..=5u32 {
        let cfg = cfg_from_mask(DEFAULT_CFG);
        match guarded(|| cfg.parse(&cur).map(|mut m| m.emit_wasm())) {
            Ok(Ok(out)) => {
                rec.push_b(&format!("round.{}", round), &out);
                cur = out;
            }
            Ok(Err(_)) => break,
            Err(p) => {
                rec.push_s(&format!("panic.round.{}", round), &p);
                break;
            }
        }
    }
}

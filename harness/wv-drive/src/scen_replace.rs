//! Scenario "replace" (C18): for (up to three of) the imported functions and the
//! exported local functions of the parsed module, call `replace_imported_func` /
//! `replace_exported_func` with a generated body on a fresh parse, emit and log
//! the output together with which function was replaced.
//!
//! Replacement body: `i32.const 0x7ACE; call $wv.trace;` then one marker
//! constant per result. `wv.trace` is a new host import, so the host-call trace
//! shows exactly when the new body runs.

use crate::probe::{self, InputIds};
use crate::util::guarded;
use walrus::ir::Value;
use walrus::*;
use wv_gen::log::Rec;

fn parse(input: &[u8]) -> Option<(Module, InputIds)> {
    let ids = std::sync::Arc::new(std::sync::Mutex::new(InputIds::default()));
    let i2 = ids.clone();
    let mut cfg = ModuleConfig::new();
    cfg.generate_producers_section(false);
    cfg.on_parse(move |m, ids| {
        let mut log = probe::OnParseLog::default();
        probe::observe_on_parse(m, ids, &mut log, false);
        *i2.lock().unwrap() = log.ids;
        Ok(())
    });
    let m = cfg.parse(input).ok()?;
    let ids = ids.lock().unwrap().clone();
    Some((m, ids))
}

/// The body goes through a scratch local that was allocated before the call (so it is older than the fresh
/// argument locals of `replace_imported_func`) and reads every argument once.
fn build_body(b: &mut InstrSeqBuilder, trace: FunctionId, results: &[ValType], scratch: LocalId, args: &[LocalId], looped: bool) {
    if looped {
        // the same observable behaviour (one traced call) reached through a counting loop whose back edge is taken:
        // the loop is spliced in afterwards with `loop_at`, the call sits in an `if` that only a finished count enters
        b.i32_const(3);
        b.local_set(scratch);
        for a in args {
            b.local_get(*a);
            b.drop();
        }
        b.local_get(scratch);
        b.unop(walrus::ir::UnaryOp::I32Eqz);
        b.if_else(
            None,
            |t| {
                t.i32_const(0x7ACE);
                t.call(trace);
            },
            |_| {},
        );
        b.loop_at(2, None, |l| {
            let id = l.id();
            l.local_get(scratch).i32_const(1).binop(walrus::ir::BinaryOp::I32Sub).local_tee(scratch).br_if(id);
        });
    } else {
        b.i32_const(0x7ACE);
        b.local_set(scratch);
        for a in args {
            b.local_get(*a);
            b.drop();
        }
        b.local_get(scratch);
        b.call(trace);
    }
    for r in results {
        match r {
            ValType::I32 => {
                b.i32_const(0x5EED_0001);
            }
            ValType::I64 => {
                b.i64_const(0x5EED_0002_0000_0003);
            }
            ValType::F32 => {
                // a signalling NaN: must come out bit for bit
                b.f32_const(f32::from_bits(0x7fa0_0001));
            }
            ValType::F64 => {
                b.f64_const(f64::from_bits(0x7ff4_0000_0000_0001));
            }
            ValType::V128 => {
                b.const_(Value::V128(0x5EED_0004_0000_0000_0000_0000_0000_0005));
            }
            ValType::Ref(t) => {
                b.ref_null(*t);
            }
        }
    }
}

pub fn run(input: &[u8], rec: &mut Rec) {
    let (m0, ids0) = match guarded(|| parse(input)) {
        Ok(Some(x)) => x,
        Ok(None) => {
            rec.push_s("parse", "err");
            return;
        }
        Err(p) => {
            rec.push_s("parse", "panic");
            rec.push_s("panic.parse", &p);
            return;
        }
    };
    rec.push_s("parse", "ok");
    // candidates, by input function index
    let imported: Vec<usize> = ids0.funcs.iter().enumerate().filter(|(_, f)| matches!(m0.funcs.get(**f).kind, FunctionKind::Import(_))).map(|(i, _)| i).collect();
    let mut exported: Vec<usize> = Vec::new();
    for e in m0.exports.iter() {
        if let ExportItem::Function(f) = e.item {
            if matches!(m0.funcs.get(f).kind, FunctionKind::Local(_)) {
                if let Some(i) = ids0.funcs.iter().position(|x| *x == f) {
                    if !exported.contains(&i) {
                        exported.push(i);
                    }
                }
            }
        }
    }
    drop(m0);
    for (kind, list) in [("imp", imported), ("exp", exported)] {
        for fi in list.into_iter().take(3) {
            let label = format!("{}.{}", kind, fi);
            let r = guarded(|| -> Result<(Vec<u8>, bool), String> {
                let (mut m, ids) = parse(input).ok_or("reparse failed")?;
                let fid = ids.funcs[fi];
                let trace_ty = m.types.add(&[ValType::I32], &[]);
                let (trace, _) = m.add_import_func("wv", "trace", trace_ty);
                let results = m.types.get(m.funcs.get(fid).ty()).results().to_vec();
                // an exported function without results is sometimes replaced by an empty body (a legitimate body:
                // it does nothing), sometimes by the tracing one
                let empty_body = kind == "exp" && results.is_empty() && (wv_gen::rng::fnv64(input) as usize + fi) % 4 == 1;
                if empty_body {
                    let r = m.replace_exported_func(fid, |_| {});
                    r.map_err(|e| format!("{:#}", e))?;
                    let mut out = m.emit_wasm();
                    out.extend_from_slice(b"");
                    return Ok((out, true));
                }
                let scratch = m.locals.add(ValType::I32);
                let looped = (wv_gen::rng::fnv64(input) as usize + fi) % 3 == 2;
                // a third of the import replacements: the import entry is taken out of the import table and put
                // back first (same module, field and function - it is then the last entry), as a tool that
                // rewrites import names does
                if kind == "imp" && (wv_gen::rng::fnv64(input) as usize + fi) % 3 == 0 {
                    let (iid, module, field) = {
                        let i = m.imports.get_imported_func(fid).ok_or("import entry not found")?;
                        (i.id(), i.module.clone(), i.name.clone())
                    };
                    m.imports.delete(iid);
                    let new_id = m.imports.add(&module, &field, fid);
                    // the function's own record of its import entry is public bookkeeping nothing in the emit path
                    // reads: kept current in half of these cases only
                    if (wv_gen::rng::fnv64(input) >> 7) % 2 == 0 {
                        if let FunctionKind::Import(imp) = &mut m.funcs.get_mut(fid).kind {
                            imp.import = new_id;
                        }
                    }
                }
                let r = if kind == "imp" {
                    m.replace_imported_func(fid, |(b, args)| build_body(b, trace, &results, scratch, args, looped))
                } else {
                    m.replace_exported_func(fid, |(b, args)| build_body(b, trace, &results, scratch, args, looped))
                };
                r.map_err(|e| format!("{:#}", e))?;
                Ok((m.emit_wasm(), false))
            });
            match r {
                Ok(Ok((out, empty))) => {
                    rec.push_b(&format!("out.{}", label), &out);
                    if empty {
                        rec.push_n(&format!("empty.{}", label), 1);
                    }
                }
                Ok(Err(e)) => rec.push_s(&format!("err.{}", label), &e),
                Err(p) => rec.push_s(&format!("panic.{}", label), &p),
            }
        }
    }
}

//! Scenario "par" (C09). In the serial flavour: parse + emit once (the
//! reference). In the parallel flavour (`--features parallel,hooks`): the same
//! inside dedicated rayon pools of 1, 2, 3, 4, 8 and 16 threads, each with no
//! delays, seeded random delays and three adversarial delay patterns injected
//! at the per-function work items through the `verif-hooks` observation points;
//! the completion order of the items is recorded.

use crate::util::{cfg_from_mask, guarded, DEFAULT_CFG};
use wv_gen::log::Rec;

/// `with_transform`: preserve_code_transform on and a harness section that writes the CodeTransform it is
/// handed into its own payload, so that the emitted bytes depend on the offset map as well.
fn once_cfg(input: &[u8], with_transform: bool) -> (String, Option<Vec<u8>>) {
    once_cfg_mask(input, with_transform, 0)
}

/// `extra`: further configuration bits (256 = an on_instr_loc callback under which neighbouring instructions
/// share an id, so that the offset map has to pick one of several entries per id: the last emitted one)
fn once_cfg_mask(input: &[u8], with_transform: bool, extra: u32) -> (String, Option<Vec<u8>>) {
    if !with_transform {
        return once(input);
    }
    let ids = std::sync::Arc::new(std::sync::Mutex::new(crate::probe::InputIds::default()));
    let i2 = ids.clone();
    let mut cfg = cfg_from_mask(DEFAULT_CFG | 64 | extra);
    cfg.on_parse(move |m, idx| {
        let mut log = crate::probe::OnParseLog::default();
        crate::probe::observe_on_parse(m, idx, &mut log, false);
        *i2.lock().unwrap() = log.ids;
        Ok(())
    });
    match guarded(|| {
        cfg.parse(input).map(|mut m| {
            let out = std::sync::Arc::new(std::sync::Mutex::new(crate::probe::ProbeOut::default()));
            let mut p = crate::probe::Probe::capture(&m, &ids.lock().unwrap(), out);
            p.embed_transform = true;
            m.customs.add(p);
            m.emit_wasm()
        })
    }) {
        Ok(Ok(out)) => ("ok".into(), Some(out)),
        Ok(Err(e)) => (format!("err:{}", format!("{:#}", e).lines().next().unwrap_or("").chars().take(160).collect::<String>()), None),
        Err(p) => (format!("panic:{}", p), None),
    }
}

fn once(input: &[u8]) -> (String, Option<Vec<u8>>) {
    let cfg = cfg_from_mask(DEFAULT_CFG);
    match guarded(|| cfg.parse(input).map(|mut m| m.emit_wasm())) {
        Ok(Ok(out)) => ("ok".into(), Some(out)),
        Ok(Err(e)) => (format!("err:{}", format!("{:#}", e).lines().next().unwrap_or("").chars().take(160).collect::<String>()), None),
        Err(p) => (format!("panic:{}", p), None),
    }
}

/// Third run set: parse, GC (so that the function arena has tombstones), then the same edit of every local
/// function - through `iter_local_mut` in the serial flavour, through the public `par_iter_local_mut` (rayon)
/// in the parallel flavour - and emit. The parallel iterators must yield exactly the live local functions.
fn once_edited(input: &[u8], lite: bool) -> (String, Option<Vec<u8>>) {
    let cfg = cfg_from_mask(DEFAULT_CFG);
    match guarded(|| {
        cfg.parse(input).map(|mut m| {
            // emitted once before anything is edited: whatever the first emission remembers (per thread, per
            // module) must not show in the second one, which follows edits that renumber types and functions
            let _first = m.emit_wasm();
            walrus::passes::gc::run(&mut m);
            // lookups by name: names are long (cheap scans would finish before any work is stolen) and unique
            // except for three adjacent pairs, placed where a split of the function list would separate them;
            // `by_name` documents that it returns the first function of that name
            let ids: Vec<walrus::FunctionId> = m.funcs.iter().map(|f| f.id()).collect();
            let n = ids.len();
            let prefix = "n".repeat(if lite { 40 } else { 600 });
            for (i, id) in ids.iter().enumerate() {
                m.funcs.get_mut(*id).name = Some(format!("{}{}", prefix, i));
            }
            let mut dups: Vec<(String, walrus::FunctionId)> = Vec::new();
            for cut in [n / 2, n / 4, 3 * n / 4] {
                if cut >= 1 && cut < n && !dups.iter().any(|d| d.1 == ids[cut - 1] || d.1 == ids[cut]) {
                    let name = format!("{}dup{}", prefix, cut);
                    m.funcs.get_mut(ids[cut - 1]).name = Some(name.clone());
                    m.funcs.get_mut(ids[cut]).name = Some(name.clone());
                    dups.push((name, ids[cut - 1]));
                }
            }
            for round in 0..(if lite { 2 } else { 25 }) {
                for (name, first) in &dups {
                    let got = m.funcs.by_name(name);
                    if got != Some(*first) {
                        return Err(format!("by_name (lookup {}) returned function #{:?} instead of the first function of that name #{}", round, got.map(|g| g.index()), first.index()));
                    }
                }
            }
            if let Some((name, _)) = dups.first() {
                if let Some(f) = m.funcs.by_name(name) {
                    m.exports.add("wv_by_name", f);
                }
            }
            // two new types that sort in front of most others, used by a new exported function (so that every later
            // type index moves), one of them as the type of a multi-value block
            {
                let t_block = m.types.add(&[], &[walrus::ValType::I32, walrus::ValType::I32]);
                let mut fb = walrus::FunctionBuilder::new(&mut m.types, &[], &[]);
                fb.func_body().block(t_block, |b| {
                    b.i32_const(1).i32_const(2);
                }).drop().drop();
                let f = fb.finish(vec![], &mut m.funcs);
                m.exports.add("wv_second_emit", f);
            }
            let mark = |id: walrus::FunctionId, f: &mut walrus::LocalFunction| {
                let mut b = f.builder_mut().func_body();
                b.const_at(0, walrus::ir::Value::I64(crate::scen_rt::MARKER ^ (id.index() as i64)));
                b.drop_at(1);
            };
            #[cfg(feature = "parallel")]
            {
                use rayon::prelude::*;
                let mut serial_ids: Vec<usize> = m.funcs.iter_local().map(|(id, _)| id.index()).collect();
                let mut par_ids: Vec<usize> = m.funcs.par_iter_local().map(|(id, _)| id.index()).collect();
                serial_ids.sort();
                par_ids.sort();
                if serial_ids != par_ids {
                    return Err(format!("par_iter_local yields {:?}, iter_local yields {:?}", par_ids, serial_ids));
                }
                let seen = std::sync::Mutex::new(Vec::new());
                m.funcs.par_iter_local_mut().for_each(|(id, f)| {
                    seen.lock().unwrap().push(id.index());
                    mark(id, f)
                });
                let mut seen = seen.into_inner().unwrap();
                seen.sort();
                if seen != serial_ids {
                    return Err(format!("par_iter_local_mut yields {:?}, iter_local yields {:?}", seen, serial_ids));
                }
            }
            #[cfg(not(feature = "parallel"))]
            for (id, f) in m.funcs.iter_local_mut() {
                mark(id, f);
            }
            Ok::<Vec<u8>, String>(m.emit_wasm())
        })
    }) {
        Ok(Ok(Ok(out))) => ("ok".into(), Some(out)),
        Ok(Ok(Err(e))) => (format!("iter-mismatch:{}", e.chars().take(300).collect::<String>()), None),
        Ok(Err(e)) => (format!("err:{}", format!("{:#}", e).lines().next().unwrap_or("").chars().take(160).collect::<String>()), None),
        Err(p) => (format!("panic:{}", p), None),
    }
}

/// Thread pools live as long as the driver process (as rayon's global pool does in an application): the worker
/// threads that handled one module handle the next one too, so anything a worker keeps between modules shows.
/// Under Miri (lite) every case gets fresh pools: an interpreted process must not end with threads running.
#[cfg(feature = "parallel")]
enum PoolRef {
    Shared(&'static rayon::ThreadPool),
    Own(rayon::ThreadPool),
}
#[cfg(feature = "parallel")]
impl PoolRef {
    fn install<R: Send>(&self, f: impl FnOnce() -> R + Send) -> R {
        match self {
            PoolRef::Shared(p) => p.install(f),
            PoolRef::Own(p) => p.install(f),
        }
    }
}
#[cfg(feature = "parallel")]
fn pool_of(threads: usize, lite: bool) -> Option<PoolRef> {
    use std::collections::HashMap;
    use std::sync::{Mutex, OnceLock};
    if lite {
        return rayon::ThreadPoolBuilder::new().num_threads(threads).build().ok().map(PoolRef::Own);
    }
    static POOLS: OnceLock<Mutex<HashMap<usize, &'static rayon::ThreadPool>>> = OnceLock::new();
    let mut m = POOLS.get_or_init(|| Mutex::new(HashMap::new())).lock().unwrap();
    if let Some(p) = m.get(&threads) {
        return Some(PoolRef::Shared(*p));
    }
    let p: &'static rayon::ThreadPool = Box::leak(Box::new(rayon::ThreadPoolBuilder::new().num_threads(threads).build().ok()?));
    m.insert(threads, p);
    Some(PoolRef::Shared(p))
}

#[cfg(not(feature = "parallel"))]
pub fn run(input: &[u8], _scn: &str, rec: &mut Rec) {
    let (v3, out3) = once_edited(input, _scn.ends_with(":lite"));
    rec.push_s("verdict_ed", &v3);
    if let Some(o) = out3 {
        rec.push_b("out_ed", &o);
    }
    let (v, out) = once(input);
    rec.push_s("flavour", "serial");
    rec.push_s("verdict", &v);
    if let Some(o) = out {
        rec.push_b("out", &o);
    }
    let (v2, out2) = once_cfg(input, true);
    rec.push_s("verdict_ct", &v2);
    if let Some(o) = out2 {
        rec.push_b("out_ct", &o);
    }
    let (v4, out4) = once_cfg_mask(input, true, 256);
    rec.push_s("verdict_ctl", &v4);
    if let Some(o) = out4 {
        rec.push_b("out_ctl", &o);
    }
}

#[cfg(feature = "parallel")]
pub fn run(input: &[u8], scn: &str, rec: &mut Rec) {
    use std::sync::atomic::{AtomicU64, Ordering};
    use std::sync::{Arc, Mutex};
    rec.push_s("flavour", "parallel");
    let funcs = wv_gen::dwarf::layout(input).len();
    let nimp = wv_gen::dwarf::num_imported_funcs(input) as usize;
    let last_index = nimp + funcs.saturating_sub(1);
    let log: Arc<Mutex<Vec<(&'static str, usize, bool)>>> = Arc::new(Mutex::new(Vec::new()));
    let mode = Arc::new(AtomicU64::new(0));
    let seed = wv_gen::rng::fnv64(input);
    #[cfg(feature = "hooks")]
    {
        let log2 = log.clone();
        let mode2 = mode.clone();
        walrus::verif::set_point_hook(Some(Arc::new(move |site, index, end| {
            if !end {
                let m = mode2.load(Ordering::Relaxed);
                let us = match m {
                    1 => wv_gen::rng::mix(seed ^ (index as u64) ^ wv_gen::rng::fnv64(site.as_bytes())) % 150,
                    2 => {
                        if index == nimp { 1500 } else { 0 }
                    }
                    3 => {
                        if index == last_index { 1500 } else { 0 }
                    }
                    4 => {
                        if index % 2 == 0 { 120 } else { 0 }
                    }
                    _ => 0,
                };
                if us > 0 {
                    std::thread::sleep(std::time::Duration::from_micros(us));
                }
            }
            log2.lock().unwrap().push((site, index, end));
        })));
    }
    let mut first: Option<(String, Option<Vec<u8>>)> = None;
    let mut runs = 0u64;
    let mut orders: Vec<u64> = Vec::new();
    // "par:lite" (used under Miri, which is ~4 orders of magnitude slower): 2 pools x 2 delay patterns
    let lite = scn.ends_with(":lite");
    let thread_counts: &[usize] = if lite { &[2, 3] } else { &[1, 2, 3, 4, 8, 16] };
    let modes: u64 = if lite { 2 } else { 5 };
    for &threads in thread_counts {
        let pool = match pool_of(threads, lite) {
            Some(p) => p,
            None => continue,
        };
        for m in 0u64..modes {
            mode.store(m, Ordering::Relaxed);
            log.lock().unwrap().clear();
            let (v, out) = pool.install(|| once(input));
            runs += 1;
            // completion order of the per-function items
            let l = log.lock().unwrap();
            let order: Vec<(u8, usize)> = l.iter().filter(|e| e.2 && e.0 != "used_data_segments").map(|e| (e.0.as_bytes()[0], e.1)).collect();
            let mut h = 0xcbf29ce484222325u64;
            for (s, i) in &order {
                h = (h ^ (*s as u64)).wrapping_mul(0x100000001b3);
                h = (h ^ (*i as u64)).wrapping_mul(0x100000001b3);
            }
            if !orders.contains(&h) {
                orders.push(h);
            }
            drop(l);
            let label = format!("t{}m{}", threads, m);
            match &first {
                None => {
                    rec.push_s("verdict", &v);
                    if let Some(o) = &out {
                        rec.push_b("out", o);
                    }
                    first = Some((v, out));
                }
                Some((v0, out0)) => {
                    if *v0 != v || *out0 != out {
                        // differs from the first parallel run: log it in full
                        rec.push_s(&format!("verdict.{}", label), &v);
                        if let Some(o) = &out {
                            rec.push_b(&format!("out.{}", label), o);
                        }
                    }
                }
            }
        }
    }
    // second set: code-transform preservation on, the offset map embedded in the output
    let mut first_ct: Option<(String, Option<Vec<u8>>)> = None;
    let ct_threads: &[usize] = if lite { &[2] } else { &[2, 4, 8, 16] };
    for &threads in ct_threads {
        let pool = match pool_of(threads, lite) {
            Some(p) => p,
            None => continue,
        };
        for m in 0u64..(if lite { 1 } else { 3 }) {
            mode.store(m, Ordering::Relaxed);
            log.lock().unwrap().clear();
            let (v, out) = pool.install(|| once_cfg(input, true));
            runs += 1;
            let label = format!("ct.t{}m{}", threads, m);
            match &first_ct {
                None => {
                    rec.push_s("verdict_ct", &v);
                    if let Some(o) = &out {
                        rec.push_b("out_ct", o);
                    }
                    first_ct = Some((v, out));
                }
                Some((v0, out0)) => {
                    if *v0 != v || *out0 != out {
                        rec.push_s(&format!("verdict.{}", label), &v);
                        if let Some(o) = &out {
                            rec.push_b(&format!("out.{}", label), o);
                        }
                    }
                }
            }
        }
    }
    // code-transform set again, with ids from a non-injective on_instr_loc callback
    let mut first_ctl: Option<(String, Option<Vec<u8>>)> = None;
    for &threads in (if lite { &[2usize][..] } else { &[2usize, 7, 16][..] }) {
        let pool = match pool_of(threads, lite) {
            Some(p) => p,
            None => continue,
        };
        for m in 0u64..(if lite { 1 } else { 2 }) {
            mode.store(m, Ordering::Relaxed);
            let (v, out) = pool.install(|| once_cfg_mask(input, true, 256));
            runs += 1;
            match &first_ctl {
                None => {
                    rec.push_s("verdict_ctl", &v);
                    if let Some(o) = &out {
                        rec.push_b("out_ctl", o);
                    }
                    first_ctl = Some((v, out));
                }
                Some((v0, out0)) => {
                    if *v0 != v || *out0 != out {
                        rec.push_s(&format!("verdict.ctl.t{}m{}", threads, m), &v);
                        if let Some(o) = &out {
                            rec.push_b(&format!("out.ctl.t{}m{}", threads, m), o);
                        }
                    }
                }
            }
        }
    }
    // third set: GC, then every local function edited through the parallel mutable iterator
    let mut first_ed: Option<(String, Option<Vec<u8>>)> = None;
    mode.store(0, Ordering::Relaxed);
    for &threads in (if lite { &[2usize][..] } else { &[1usize, 3, 16][..] }) {
        let pool = match pool_of(threads, lite) {
            Some(p) => p,
            None => continue,
        };
        let (v, out) = pool.install(|| once_edited(input, lite));
        runs += 1;
        match &first_ed {
            None => {
                rec.push_s("verdict_ed", &v);
                if let Some(o) = &out {
                    rec.push_b("out_ed", o);
                }
                first_ed = Some((v, out));
            }
            Some((v0, out0)) => {
                if *v0 != v || *out0 != out {
                    rec.push_s(&format!("verdict.ed.t{}", threads), &v);
                    if let Some(o) = &out {
                        rec.push_b(&format!("out.ed.t{}", threads), o);
                    }
                }
            }
        }
    }
    #[cfg(feature = "hooks")]
    walrus::verif::set_point_hook(None);
    rec.push_n("runs", runs);
    rec.push_n("items", funcs as u64);
    rec.push_n("distinct_orders", orders.len() as u64);
}

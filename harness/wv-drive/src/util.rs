//! Panic capture and small helpers for the subject process.

use std::cell::RefCell;
use std::panic::{catch_unwind, AssertUnwindSafe};

thread_local! {
    static LAST_PANIC: RefCell<Option<String>> = RefCell::new(None);
}

pub fn install_panic_hook() {
    std::panic::set_hook(Box::new(|info| {
        let loc = info.location().map(|l| format!("{}:{}", l.file(), l.line())).unwrap_or_else(|| "?".into());
        let msg = if let Some(s) = info.payload().downcast_ref::<&str>() {
            s.to_string()
        } else if let Some(s) = info.payload().downcast_ref::<String>() {
            s.clone()
        } else {
            "<non-string panic>".to_string()
        };
        let first = msg.lines().next().unwrap_or("").chars().take(300).collect::<String>();
        LAST_PANIC.with(|p| *p.borrow_mut() = Some(format!("{}: {}", loc, first)));
    }));
}

/// Run `f`; on unwind return the panic location and first message line.
pub fn guarded<T>(f: impl FnOnce() -> T) -> Result<T, String> {
    LAST_PANIC.with(|p| *p.borrow_mut() = None);
    match catch_unwind(AssertUnwindSafe(f)) {
        Ok(v) => Ok(v),
        Err(_) => Err(LAST_PANIC.with(|p| p.borrow_mut().take()).unwrap_or_else(|| "?: <unknown panic>".into())),
    }
}

pub fn thread_cpu_ns() -> u64 {
    let mut ts = libc::timespec { tv_sec: 0, tv_nsec: 0 };
    unsafe {
        libc::clock_gettime(libc::CLOCK_THREAD_CPUTIME_ID, &mut ts);
    }
    ts.tv_sec as u64 * 1_000_000_000 + ts.tv_nsec as u64
}

pub fn process_cpu_ns() -> u64 {
    let mut ts = libc::timespec { tv_sec: 0, tv_nsec: 0 };
    unsafe {
        libc::clock_gettime(libc::CLOCK_PROCESS_CPUTIME_ID, &mut ts);
    }
    ts.tv_sec as u64 * 1_000_000_000 + ts.tv_nsec as u64
}

/// Soft CPU limit = CPU used so far + `budget_s`; the kernel sends SIGXCPU when exceeded.
pub fn arm_cpu_budget(budget_s: u64) {
    let used = process_cpu_ns() / 1_000_000_000;
    let lim = libc::rlimit { rlim_cur: used + budget_s + 1, rlim_max: libc::RLIM_INFINITY };
    unsafe {
        libc::setrlimit(libc::RLIMIT_CPU, &lim);
    }
}

pub fn limit_address_space(bytes: u64) {
    let lim = libc::rlimit { rlim_cur: bytes, rlim_max: bytes };
    unsafe {
        libc::setrlimit(libc::RLIMIT_AS, &lim);
    }
}

pub fn cfg_from_mask(mask: u32) -> walrus::ModuleConfig {
    let mut c = walrus::ModuleConfig::new();
    // Every switch is first set to the opposite of what is wanted and then to the wanted value, the final
    // values in an order that depends on the mask: a setter must not depend on what was set before it or
    // disturb another switch. The one documented coupling is kept apart: generate_dwarf(true) implies
    // preserve_code_transform, so the code-transform switch is set before the DWARF switch in both passes.
    let set = |c: &mut walrus::ModuleConfig, bit: u32, on: bool| {
        match bit {
            64 => c.preserve_code_transform(on),
            1 => c.generate_dwarf(on),
            2 => c.generate_name_section(on),
            4 => c.generate_synthetic_names_for_anonymous_items(on),
            8 => c.strict_validate(on),
            16 => c.generate_producers_section(on),
            _ => c.only_stable_features(on),
        };
    };
    for bit in [2u32, 32, 8, 64, 1, 16, 4] {
        set(&mut c, bit, mask & bit == 0);
    }
    let mut rest = [2u32, 4, 8, 16, 32];
    let r = (mask.wrapping_mul(2654435761) >> 7) as usize;
    rest.rotate_left(r % 5);
    if r & 1 == 1 {
        rest.reverse();
    }
    // the pair (code transform, DWARF) goes before, between or after the others
    let at = (r / 5) % 6;
    let mut order: Vec<u32> = rest.to_vec();
    order.insert(at.min(order.len()), 64);
    let p = order.iter().position(|b| *b == 64).unwrap();
    order.insert(p + 1 + ((r / 31) % (order.len() - p)), 1);
    for bit in order {
        set(&mut c, bit, mask & bit != 0);
    }
    // bit 512 (with DWARF on): the code-transform switch is turned off after generate_dwarf(true) - the two setters
    // are independent, DWARF generation stays on
    if mask & 512 != 0 && mask & 1 != 0 {
        c.preserve_code_transform(false);
    }
    // bits beyond the seven boolean switches: an on_instr_loc callback (the ids handed to custom sections and
    // to the DWARF rewriter are then what the callback returns, not the input offsets)
    if mask & 128 != 0 {
        // injective: offset + LOC_SHIFT
        c.on_instr_loc(|pos| walrus::InstrLocId::new((*pos as u32).wrapping_add(LOC_SHIFT)));
    } else if mask & 256 != 0 {
        // not injective: neighbouring instructions share an id
        c.on_instr_loc(|pos| walrus::InstrLocId::new((*pos as u32) / 3 + 1));
    }
    c
}

pub const LOC_SHIFT: u32 = 1_000_000;

/// walrus defaults: names on, strict on, producers on
pub const DEFAULT_CFG: u32 = 2 | 8 | 16;


/// A parse that fails late, on the same thread, before the parse that matters: a generated module (chosen by a
/// hash of the case's input, so that a replay does the same) whose last function body has lost its final `end`
/// is handed to walrus and the error is ignored. Whatever a failed parse leaves behind - in thread-locals,
/// statics, caches - must not reach the next module.
pub fn failed_parse_first(input: &[u8], cfg_mask: u32) -> bool {
    let spec = format!("gen:full:{}:{}", 77 + (wv_gen::rng::fnv64(input) % 5), wv_gen::rng::fnv64(input) % 97);
    let mut bytes = match wv_gen::workload::materialize(&spec) {
        Some(b) => b,
        None => return false,
    };
    let base = wv_gen::dwarf::code_section_start(&bytes).unwrap_or(0);
    let last_end = wv_gen::dwarf::layout(&bytes).last().map(|f| base + f.end as usize);
    match last_end {
        Some(e) if e >= 1 && bytes[e - 1] == 0x0b => bytes[e - 1] = 0x1a,
        _ => return false,
    }
    let cfg = cfg_from_mask(cfg_mask);
    matches!(guarded(|| cfg.parse(&bytes).is_err()), Ok(true))
}

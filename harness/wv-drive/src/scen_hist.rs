//! Scenario "hist" (C17): a history of additions and deletions on one public
//! collection of a fresh `Module`; after every step the result of the
//! operation, `get` on every id ever issued (panic or None = "absent"), a full
//! `iter` and the lookups by value are logged. The judge replays the history on
//! a sequential reference model.
//!
//! History encoding (the case's input bytes): "<collection>:<symbols>", symbols
//!   a..h = add value 0..7, 0..9 = delete the k-th issued id, L = delete the last issued id.

use crate::util::guarded;
use walrus::ir::Value;
use walrus::*;
use wv_gen::log::Rec;

trait Coll {
    /// returns the position of the returned id in the issued list (pushing a new id if it is new)
    fn add(&mut self, v: u32) -> (usize, bool);
    fn del(&mut self, k: usize);
    fn get(&self, k: usize) -> Option<String>;
    fn iter(&self) -> Vec<String>;
    fn find(&self, _v: u32) -> Option<Option<usize>> {
        None
    }
    /// values seen by mutable iteration, where the collection offers it
    fn iter_mut_vals(&mut self) -> Option<Vec<String>> {
        None
    }
    /// give the k-th issued item a (new) debug name through `get_mut`, where the item has one
    fn rename(&mut self, _k: usize, _name: &str) -> bool {
        false
    }
    fn issued(&self) -> usize;
}

macro_rules! issue {
    ($self:ident, $id:expr) => {{
        let id = $id;
        match $self.ids.iter().position(|x| *x == id) {
            Some(p) => (p, false),
            None => {
                $self.ids.push(id);
                ($self.ids.len() - 1, true)
            }
        }
    }};
}

struct Globals {
    m: Module,
    ids: Vec<GlobalId>,
}
impl Coll for Globals {
    fn add(&mut self, v: u32) -> (usize, bool) {
        issue!(self, self.m.globals.add_local(ValType::I32, false, false, ConstExpr::Value(Value::I32(v as i32))))
    }
    fn del(&mut self, k: usize) {
        self.m.globals.delete(self.ids[k]);
    }
    fn get(&self, k: usize) -> Option<String> {
        let id = self.ids[k];
        guarded(|| match &self.m.globals.get(id).kind {
            GlobalKind::Local(ConstExpr::Value(Value::I32(v))) => format!("{}", v),
            other => format!("?{:?}", other),
        })
        .ok()
    }
    fn iter(&self) -> Vec<String> {
        self.m.globals.iter().map(|g| match &g.kind {
            GlobalKind::Local(ConstExpr::Value(Value::I32(v))) => format!("{}", v),
            other => format!("?{:?}", other),
        }).collect()
    }
    fn rename(&mut self, k: usize, name: &str) -> bool { self.m.globals.get_mut(self.ids[k]).name = Some(name.to_string()); true }
    fn issued(&self) -> usize { self.ids.len() }
}

struct Tables {
    m: Module,
    ids: Vec<TableId>,
}
impl Coll for Tables {
    fn add(&mut self, v: u32) -> (usize, bool) {
        // odd values arrive as imports (created among the local ones: creation order is still the order of iteration)
        if v % 2 == 1 {
            issue!(self, self.m.add_import_table("wv", &format!("t{}", self.ids.len()), false, v as u64, None, RefType::Funcref).0)
        } else {
            issue!(self, self.m.tables.add_local(false, v as u64, None, RefType::Funcref))
        }
    }
    fn del(&mut self, k: usize) { self.m.tables.delete(self.ids[k]); }
    fn get(&self, k: usize) -> Option<String> {
        let id = self.ids[k];
        guarded(|| format!("{}", self.m.tables.get(id).initial)).ok()
    }
    fn iter(&self) -> Vec<String> { self.m.tables.iter().map(|t| format!("{}", t.initial)).collect() }
    fn iter_mut_vals(&mut self) -> Option<Vec<String>> { Some(self.m.tables.iter_mut().map(|t| format!("{}", t.initial)).collect()) }
    fn rename(&mut self, k: usize, name: &str) -> bool { self.m.tables.get_mut(self.ids[k]).name = Some(name.to_string()); true }
    fn issued(&self) -> usize { self.ids.len() }
}

struct Memories {
    m: Module,
    ids: Vec<MemoryId>,
}
impl Coll for Memories {
    fn add(&mut self, v: u32) -> (usize, bool) {
        if v % 2 == 1 {
            issue!(self, self.m.add_import_memory("wv", &format!("m{}", self.ids.len()), false, false, v as u64, None, None).0)
        } else {
            issue!(self, self.m.memories.add_local(false, false, v as u64, None, None))
        }
    }
    fn del(&mut self, k: usize) { self.m.memories.delete(self.ids[k]); }
    fn get(&self, k: usize) -> Option<String> {
        let id = self.ids[k];
        guarded(|| format!("{}", self.m.memories.get(id).initial)).ok()
    }
    fn iter(&self) -> Vec<String> { self.m.memories.iter().map(|t| format!("{}", t.initial)).collect() }
    fn iter_mut_vals(&mut self) -> Option<Vec<String>> { Some(self.m.memories.iter_mut().map(|t| format!("{}", t.initial)).collect()) }
    fn rename(&mut self, k: usize, name: &str) -> bool { self.m.memories.get_mut(self.ids[k]).name = Some(name.to_string()); true }
    fn issued(&self) -> usize { self.ids.len() }
}

struct Datas {
    m: Module,
    ids: Vec<DataId>,
}
impl Coll for Datas {
    fn add(&mut self, v: u32) -> (usize, bool) {
        issue!(self, self.m.data.add(DataKind::Passive, vec![v as u8]))
    }
    fn del(&mut self, k: usize) { self.m.data.delete(self.ids[k]); }
    fn get(&self, k: usize) -> Option<String> {
        let id = self.ids[k];
        guarded(|| format!("{}", self.m.data.get(id).value.first().copied().unwrap_or(255))).ok()
    }
    fn iter(&self) -> Vec<String> { self.m.data.iter().map(|t| format!("{}", t.value.first().copied().unwrap_or(255))).collect() }
    fn rename(&mut self, k: usize, name: &str) -> bool { self.m.data.get_mut(self.ids[k]).name = Some(name.to_string()); true }
    fn issued(&self) -> usize { self.ids.len() }
}

struct Elements {
    m: Module,
    ids: Vec<ElementId>,
}
fn elem_val(e: &Element) -> String {
    match &e.items {
        ElementItems::Expressions(_, v) => format!("{}", v.len()),
        ElementItems::Functions(v) => format!("f{}", v.len()),
    }
}
impl Coll for Elements {
    fn add(&mut self, v: u32) -> (usize, bool) {
        issue!(self, self.m.elements.add(ElementKind::Passive, ElementItems::Expressions(RefType::Funcref, vec![ConstExpr::RefNull(RefType::Funcref); v as usize])))
    }
    fn del(&mut self, k: usize) { self.m.elements.delete(self.ids[k]); }
    fn get(&self, k: usize) -> Option<String> {
        let id = self.ids[k];
        guarded(|| elem_val(self.m.elements.get(id))).ok()
    }
    fn iter(&self) -> Vec<String> { self.m.elements.iter().map(elem_val).collect() }
    fn iter_mut_vals(&mut self) -> Option<Vec<String>> { Some(self.m.elements.iter_mut().map(|e| elem_val(e)).collect()) }
    fn rename(&mut self, k: usize, name: &str) -> bool { self.m.elements.get_mut(self.ids[k]).name = Some(name.to_string()); true }
    fn issued(&self) -> usize { self.ids.len() }
}

struct Types {
    m: Module,
    ids: Vec<TypeId>,
    /// the type of a function built before the history starts (not an item of the history); building it also
    /// creates the type of its entry block, () -> (), which iteration shows and `find`/`add` must not hand out
    filler: Vec<TypeId>,
}
impl Coll for Types {
    fn add(&mut self, v: u32) -> (usize, bool) {
        let params = vec![ValType::I32; v as usize];
        issue!(self, self.m.types.add(&params, &[]))
    }
    fn del(&mut self, k: usize) { self.m.types.delete(self.ids[k]); }
    fn get(&self, k: usize) -> Option<String> {
        let id = self.ids[k];
        guarded(|| format!("{}", self.m.types.get(id).params().len())).ok()
    }
    fn iter(&self) -> Vec<String> { self.m.types.iter().filter(|t| !self.filler.contains(&t.id())).map(|t| format!("{}", t.params().len())).collect() }
    fn rename(&mut self, k: usize, name: &str) -> bool { self.m.types.get_mut(self.ids[k]).name = Some(name.to_string()); true }
    fn find(&self, v: u32) -> Option<Option<usize>> {
        let params = vec![ValType::I32; v as usize];
        Some(self.m.types.find(&params, &[]).map(|id| self.ids.iter().position(|x| *x == id).unwrap_or(usize::MAX)))
    }
    fn issued(&self) -> usize { self.ids.len() }
}

struct Exports {
    m: Module,
    /// one function per value, so that lookups by exported function find "the first live export of value v"
    fs: Vec<FunctionId>,
    ids: Vec<ExportId>,
    vals: Vec<u32>,
    alive: Vec<bool>,
}
impl Coll for Exports {
    fn add(&mut self, v: u32) -> (usize, bool) {
        let r = issue!(self, self.m.exports.add(&format!("e{}", v), self.fs[v as usize % self.fs.len()]));
        if r.1 {
            self.vals.push(v);
            self.alive.push(true);
        }
        r
    }
    fn del(&mut self, k: usize) {
        // three public ways to delete an export: by id, as a root, by name (when the name designates this one)
        let first = (0..self.ids.len()).find(|i| self.alive[*i] && self.vals[*i] == self.vals[k]);
        match k % 3 {
            0 => self.m.exports.delete(self.ids[k]),
            1 => self.m.exports.remove_root(self.ids[k]),
            _ if first == Some(k) => {
                let _ = self.m.exports.remove(format!("e{}", self.vals[k]));
            }
            _ => self.m.exports.delete(self.ids[k]),
        }
        self.alive[k] = false;
    }
    fn get(&self, k: usize) -> Option<String> {
        let id = self.ids[k];
        guarded(|| self.m.exports.get(id).name[1..].to_string()).ok()
    }
    fn iter(&self) -> Vec<String> { self.m.exports.iter().map(|e| e.name[1..].to_string()).collect() }
    fn iter_mut_vals(&mut self) -> Option<Vec<String>> { Some(self.m.exports.iter_mut().map(|e| e.name[1..].to_string()).collect()) }
    fn find(&self, v: u32) -> Option<Option<usize>> {
        let f = self.fs[v as usize % self.fs.len()];
        let by_func = self.m.exports.get_exported_func(f).map(|e| self.ids.iter().position(|x| *x == e.id()).unwrap_or(usize::MAX));
        let by_name = self.m.exports.get_func(format!("e{}", v)).ok();
        // the two lookups must agree on whether such an export exists, and the name must lead to that function
        match (by_func, by_name) {
            (Some(k), Some(g)) if g == f => Some(Some(k)),
            (None, None) => Some(None),
            _ => Some(Some(usize::MAX - 1)),
        }
    }
    fn issued(&self) -> usize { self.ids.len() }
}

struct Imports {
    m: Module,
    ids: Vec<ImportId>,
    vals: Vec<u32>,
    alive: Vec<bool>,
}
impl Coll for Imports {
    fn add(&mut self, v: u32) -> (usize, bool) {
        // values 2k and 2k+1 share the name "v<k>": the even one is a global import, the odd one a function import
        let name = format!("v{}", v / 2);
        let id = if v % 2 == 0 {
            self.m.add_import_global("m", &name, ValType::I32, false, false).1
        } else {
            let ty = self.m.types.add(&[], &[]);
            self.m.add_import_func("m", &name, ty).1
        };
        let r = issue!(self, id);
        if r.1 {
            self.vals.push(v);
            self.alive.push(true);
        }
        r
    }
    fn del(&mut self, k: usize) {
        // by name when the name designates this very entry (the first live import of that name, of any kind)
        let first = (0..self.ids.len()).find(|i| self.alive[*i] && self.vals[*i] / 2 == self.vals[k] / 2);
        if k % 2 == 1 && first == Some(k) {
            let _ = self.m.imports.remove("m", format!("v{}", self.vals[k] / 2));
        } else {
            self.m.imports.delete(self.ids[k]);
        }
        self.alive[k] = false;
    }
    fn get(&self, k: usize) -> Option<String> {
        let id = self.ids[k];
        let v = self.vals[k];
        guarded(|| {
            let i = self.m.imports.get(id);
            let kind_ok = matches!((&i.kind, v % 2), (ImportKind::Global(_), 0) | (ImportKind::Function(_), 1));
            if kind_ok && i.name == format!("v{}", v / 2) { v.to_string() } else { format!("?{}", i.name) }
        })
        .ok()
    }
    fn iter(&self) -> Vec<String> {
        self.m.imports.iter().map(|e| format!("{}", e.name[1..].parse::<u32>().unwrap_or(99) * 2 + if matches!(e.kind, ImportKind::Function(_)) { 1 } else { 0 })).collect()
    }
    fn iter_mut_vals(&mut self) -> Option<Vec<String>> {
        Some(self.m.imports.iter_mut().map(|e| format!("{}", e.name[1..].parse::<u32>().unwrap_or(99) * 2 + if matches!(e.kind, ImportKind::Function(_)) { 1 } else { 0 })).collect())
    }
    fn find(&self, v: u32) -> Option<Option<usize>> {
        let name = format!("v{}", v / 2);
        let by_name = self.m.imports.find("m", &name).map(|id| self.ids.iter().position(|x| *x == id).unwrap_or(usize::MAX));
        // a function import of that name is live <=> get_func finds one
        let want_func = (0..self.ids.len()).any(|i| self.alive[i] && self.vals[i] % 2 == 1 && self.vals[i] / 2 == v / 2);
        if self.m.imports.get_func("m", &name).is_ok() != want_func {
            return Some(Some(usize::MAX - 1));
        }
        Some(by_name)
    }
    fn issued(&self) -> usize { self.ids.len() }
}

struct Funcs {
    m: Module,
    ids: Vec<FunctionId>,
}
fn func_val(f: &Function) -> String {
    match &f.kind {
        FunctionKind::Local(l) => {
            let seq = l.block(l.entry_block());
            match seq.instrs.first() {
                Some((walrus::ir::Instr::Const(c), _)) => match c.value {
                    Value::I32(v) => format!("{}", v),
                    _ => "?".into(),
                },
                _ => "?".into(),
            }
        }
        FunctionKind::Import(_) => "import".into(),
        FunctionKind::Uninitialized(_) => "uninitialized".into(),
    }
}
impl Coll for Funcs {
    fn add(&mut self, v: u32) -> (usize, bool) {
        let mut b = FunctionBuilder::new(&mut self.m.types, &[], &[]);
        // odd values get a name, even ones stay anonymous
        if v % 2 == 1 {
            b.name(format!("n{}", v));
        }
        b.func_body().i32_const(v as i32).drop();
        issue!(self, b.finish(vec![], &mut self.m.funcs))
    }
    fn find(&self, v: u32) -> Option<Option<usize>> {
        let name = if v % 2 == 1 { format!("n{}", v) } else { String::new() };
        Some(self.m.funcs.by_name(&name).map(|id| self.ids.iter().position(|x| *x == id).unwrap_or(usize::MAX)))
    }
    fn del(&mut self, k: usize) { self.m.funcs.delete(self.ids[k]); }
    fn get(&self, k: usize) -> Option<String> {
        let id = self.ids[k];
        guarded(|| func_val(self.m.funcs.get(id))).ok()
    }
    fn iter(&self) -> Vec<String> { self.m.funcs.iter().map(func_val).collect() }
    fn iter_mut_vals(&mut self) -> Option<Vec<String>> { Some(self.m.funcs.iter_mut().map(|f| func_val(f)).collect()) }
    fn rename(&mut self, k: usize, name: &str) -> bool { self.m.funcs.get_mut(self.ids[k]).name = Some(name.to_string()); true }
    fn issued(&self) -> usize { self.ids.len() }
}

struct Locals {
    m: Module,
    ids: Vec<LocalId>,
}
const LOCAL_TYS: [ValType; 4] = [ValType::I32, ValType::I64, ValType::F32, ValType::F64];
impl Coll for Locals {
    fn add(&mut self, v: u32) -> (usize, bool) {
        issue!(self, self.m.locals.add(LOCAL_TYS[(v % 4) as usize]))
    }
    fn del(&mut self, _k: usize) {}
    fn get(&self, k: usize) -> Option<String> {
        let id = self.ids[k];
        guarded(|| format!("{}", LOCAL_TYS.iter().position(|t| *t == self.m.locals.get(id).ty()).unwrap_or(9))).ok()
    }
    fn iter(&self) -> Vec<String> { self.m.locals.iter().map(|l| format!("{}", LOCAL_TYS.iter().position(|t| *t == l.ty()).unwrap_or(9))).collect() }
    fn issued(&self) -> usize { self.ids.len() }
}

/// A custom section type of the harness's own: even values are added as this type, odd values as raw sections,
/// value 2k and 2k+1 under the same section name, so that deletion by name (`remove_raw`) has a typed
/// section of the same name to leave alone.
#[derive(Debug)]
struct WvTyped {
    name: String,
    v: u32,
}
impl CustomSection for WvTyped {
    fn name(&self) -> &str {
        &self.name
    }
    fn data(&self, _: &IdsToIndices) -> std::borrow::Cow<[u8]> {
        vec![self.v as u8].into()
    }
}

#[derive(Clone, Copy, PartialEq)]
enum CustomId {
    Raw(TypedCustomSectionId<RawCustomSection>),
    Typed(TypedCustomSectionId<WvTyped>),
}

struct Customs {
    m: Module,
    ids: Vec<CustomId>,
    vals: Vec<u32>,
    alive: Vec<bool>,
}
fn custom_label(c: &dyn CustomSection) -> String {
    if let Some(t) = c.as_any().downcast_ref::<WvTyped>() {
        t.v.to_string()
    } else if let Some(r) = c.as_any().downcast_ref::<RawCustomSection>() {
        r.data.first().map(|b| b.to_string()).unwrap_or_default()
    } else {
        "?".into()
    }
}
impl Coll for Customs {
    fn add(&mut self, v: u32) -> (usize, bool) {
        let name = format!("k{}", v / 2);
        let id = if v % 2 == 0 { CustomId::Typed(self.m.customs.add(WvTyped { name, v })) } else { CustomId::Raw(self.m.customs.add(RawCustomSection { name, data: vec![v as u8] })) };
        self.ids.push(id);
        self.vals.push(v);
        self.alive.push(true);
        (self.ids.len() - 1, true)
    }
    fn del(&mut self, k: usize) {
        match self.ids[k] {
            CustomId::Typed(id) => {
                let _ = self.m.customs.delete(id);
            }
            CustomId::Raw(id) => {
                // by name when that designates this very section (the first live raw section of that name)
                let first = (0..self.ids.len()).find(|i| self.alive[*i] && self.vals[*i] == self.vals[k]);
                if first == Some(k) {
                    let _ = self.m.customs.remove_raw(&format!("k{}", self.vals[k] / 2));
                } else {
                    let _ = self.m.customs.delete(id);
                }
            }
        }
        self.alive[k] = false;
    }
    fn get(&self, k: usize) -> Option<String> {
        match self.ids[k] {
            CustomId::Typed(id) => guarded(|| self.m.customs.get(id).map(|c| c.v.to_string())).ok().flatten(),
            CustomId::Raw(id) => guarded(|| self.m.customs.get(id).map(|c| c.data[0].to_string())).ok().flatten(),
        }
    }
    fn iter(&self) -> Vec<String> { self.m.customs.iter().map(|(_, c)| custom_label(c)).collect() }
    fn iter_mut_vals(&mut self) -> Option<Vec<String>> { Some(self.m.customs.iter_mut().map(|(_, c)| custom_label(&*c)).collect()) }
    fn issued(&self) -> usize { self.ids.len() }
}

fn make(coll: &str, filler: bool) -> Option<Box<dyn Coll>> {
    Some(match coll {
        "globals" => Box::new(Globals { m: Module::default(), ids: vec![] }),
        "tables" => Box::new(Tables { m: Module::default(), ids: vec![] }),
        "memories" => Box::new(Memories { m: Module::default(), ids: vec![] }),
        "data" => Box::new(Datas { m: Module::default(), ids: vec![] }),
        "elements" => Box::new(Elements { m: Module::default(), ids: vec![] }),
        "types" => {
            let mut m = Module::default();
            let filler = if filler {
                let _ = FunctionBuilder::new(&mut m.types, &[ValType::I64; 9], &[]);
                m.types.iter().map(|t| t.id()).collect()
            } else {
                vec![]
            };
            Box::new(Types { m, ids: vec![], filler })
        }
        "imports" => Box::new(Imports { m: Module::default(), ids: vec![], vals: vec![], alive: vec![] }),
        "funcs" => Box::new(Funcs { m: Module::default(), ids: vec![] }),
        "locals" => Box::new(Locals { m: Module::default(), ids: vec![] }),
        "customs" => Box::new(Customs { m: Module::default(), ids: vec![], vals: vec![], alive: vec![] }),
        "exports" => {
            let mut m = Module::default();
            let fs: Vec<FunctionId> = (0..8)
                .map(|i| {
                    let mut b = FunctionBuilder::new(&mut m.types, &[], &[]);
                    b.func_body().i32_const(i).drop();
                    b.finish(vec![], &mut m.funcs)
                })
                .collect();
            Box::new(Exports { m, fs, ids: vec![], vals: vec![], alive: vec![] })
        }
        _ => return None,
    })
}

pub fn run(input: &[u8], rec: &mut Rec) {
    let text = String::from_utf8_lossy(input).to_string();
    let (coll, syms) = match text.split_once(':') {
        Some(x) => x,
        None => {
            rec.push_s("harness_error", "bad history");
            return;
        }
    };
    let mut c = match make(coll, syms.len() % 2 == 0) {
        Some(c) => c,
        None => {
            rec.push_s("harness_error", "unknown collection");
            return;
        }
    };
    let mut dead: Vec<bool> = vec![];
    for (step, s) in syms.chars().enumerate() {
        let mut line = String::new();
        let r = guarded(|| match s {
            'a'..='h' => {
                let (k, new) = c.add(s as u32 - 'a' as u32);
                format!("add -> id#{} {}", k, if new { "new" } else { "existing" })
            }
            'r' | 'R' => {
                // rename through get_mut: must not disturb identity, lookup or later deletion
                let k = if s == 'R' { c.issued().wrapping_sub(1) } else { dead.iter().position(|d| !*d).unwrap_or(usize::MAX) };
                if k >= c.issued() || dead.get(k).copied().unwrap_or(false) {
                    "rename -> skip".to_string()
                } else {
                    let done = c.rename(k, &format!("renamed{}", step));
                    format!("rename id#{} {}", k, if done { "done" } else { "n/a" })
                }
            }
            _ => {
                let k = if s == 'L' { c.issued().wrapping_sub(1) } else { (s as u8 - b'0') as usize };
                if k >= c.issued() || dead.get(k).copied().unwrap_or(false) || coll == "locals" {
                    "del -> skip".to_string()
                } else {
                    c.del(k);
                    format!("del id#{}", k)
                }
            }
        });
        match r {
            Ok(t) => {
                if let Some(k) = t.strip_prefix("del id#").and_then(|x| x.parse::<usize>().ok()) {
                    while dead.len() <= k {
                        dead.push(false);
                    }
                    dead[k] = true;
                }
                line.push_str(&t)
            }
            Err(p) => {
                line.push_str(&format!("PANIC {}", p));
                rec.push_s(&format!("s{}", step), &line);
                break;
            }
        }
        while dead.len() < c.issued() {
            dead.push(false);
        }
        line.push_str(" | gets:");
        for k in 0..c.issued() {
            line.push_str(&format!(" {}", c.get(k).unwrap_or_else(|| "absent".into())));
        }
        line.push_str(" | iter:");
        match guarded(|| c.iter()) {
            Ok(v) => line.push_str(&format!(" [{}]", v.join(","))),
            Err(p) => line.push_str(&format!(" PANIC {}", p)),
        }
        match guarded(|| c.iter_mut_vals()) {
            Ok(Some(v)) => line.push_str(&format!(" | iter_mut: [{}]", v.join(","))),
            Ok(None) => line.push_str(" | iter_mut: n/a"),
            Err(p) => line.push_str(&format!(" | iter_mut: PANIC {}", p)),
        }
        line.push_str(" | find:");
        for v in 0..4u32 {
            if let Some(f) = c.find(v) {
                line.push_str(&match f {
                    Some(k) => format!(" {}", k),
                    None => " -".to_string(),
                });
            }
        }
        rec.push_s(&format!("s{}", step), &line);
    }
}

//! Observation of what walrus exposes to extension code:
//!  * the parse-time `IndicesToIds` map (queried for every index of every space inside `on_parse`),
//!  * the emit-time `IdsToIndices` map (queried from inside `CustomSection::data`),
//!  * the `CodeTransform` handed to `CustomSection::apply_code_transform`.
//! Everything is written down as text lines; the judge recomputes the same
//! lines from its own decoding of the input/output binaries.

use std::borrow::Cow;
use std::sync::{Arc, Mutex};
use walrus::ir::{self, Visitor};
use walrus::*;

pub fn vt(t: ValType) -> &'static str {
    match t {
        ValType::I32 => "i32",
        ValType::I64 => "i64",
        ValType::F32 => "f32",
        ValType::F64 => "f64",
        ValType::V128 => "v128",
        ValType::Ref(RefType::Funcref) => "funcref",
        ValType::Ref(RefType::Externref) => "externref",
        #[allow(unreachable_patterns)]
        _ => "?",
    }
}

pub fn rt(t: RefType) -> &'static str {
    vt(ValType::Ref(t))
}

pub fn sig(m: &Module, ty: TypeId) -> String {
    let t = m.types.get(ty);
    format!(
        "({})->({})",
        t.params().iter().map(|t| vt(*t)).collect::<Vec<_>>().join(","),
        t.results().iter().map(|t| vt(*t)).collect::<Vec<_>>().join(",")
    )
}

fn value(v: &ir::Value) -> String {
    match v {
        ir::Value::I32(x) => format!("i32:{}", x),
        ir::Value::I64(x) => format!("i64:{}", x),
        ir::Value::F32(x) => format!("f32:{:08x}", x.to_bits()),
        ir::Value::F64(x) => format!("f64:{:016x}", x.to_bits()),
        ir::Value::V128(x) => format!("v128:{:032x}", x),
    }
}

fn imp(m: &Module, id: ImportId) -> String {
    let i = m.imports.get(id);
    format!("imp:{}/{}", i.module, i.name)
}

struct Consts(Vec<String>);
impl<'a> Visitor<'a> for Consts {
    fn visit_const(&mut self, c: &ir::Const) {
        if self.0.len() < 8 {
            self.0.push(value(&c.value));
        }
    }
}

pub fn func_line(m: &Module, id: FunctionId) -> String {
    let f = m.funcs.get(id);
    match &f.kind {
        FunctionKind::Import(i) => format!("F {} {}", sig(m, i.ty), imp(m, i.import)),
        FunctionKind::Local(l) => {
            let mut c = Consts(vec![]);
            ir::dfs_in_order(&mut c, l, l.entry_block());
            format!("F {} loc:{}", sig(m, l.ty()), c.0.join(","))
        }
        FunctionKind::Uninitialized(_) => "F uninitialized".to_string(),
    }
}

pub fn cexpr(m: &Module, e: &ConstExpr, depth: usize) -> String {
    match e {
        ConstExpr::Value(v) => value(v),
        ConstExpr::Global(g) => {
            if depth > 4 {
                "get(...)".into()
            } else {
                format!("get({})", global_line_d(m, *g, depth + 1))
            }
        }
        ConstExpr::RefNull(t) => format!("null:{}", rt(*t)),
        ConstExpr::RefFunc(f) => format!("func({})", func_line(m, *f)),
    }
}

fn global_line_d(m: &Module, id: GlobalId, depth: usize) -> String {
    let g = m.globals.get(id);
    let k = match &g.kind {
        GlobalKind::Import(i) => imp(m, *i),
        GlobalKind::Local(e) => format!("init:{}", cexpr(m, e, depth)),
    };
    format!("G {} {} {}", vt(g.ty), if g.mutable { "mut" } else { "const" }, k)
}

pub fn global_line(m: &Module, id: GlobalId) -> String {
    global_line_d(m, id, 0)
}

pub fn table_line(m: &Module, id: TableId) -> String {
    let t = m.tables.get(id);
    format!(
        "T {} {} {} t64={} {}",
        rt(t.element_ty),
        t.initial,
        t.maximum.map(|x| x.to_string()).unwrap_or_else(|| "-".into()),
        t.table64,
        t.import.map(|i| imp(m, i)).unwrap_or_else(|| "loc".into())
    )
}

pub fn memory_line(m: &Module, id: MemoryId) -> String {
    let t = m.memories.get(id);
    format!(
        "M {} {} shared={} m64={} {}",
        t.initial,
        t.maximum.map(|x| x.to_string()).unwrap_or_else(|| "-".into()),
        t.shared,
        t.memory64,
        t.import.map(|i| imp(m, i)).unwrap_or_else(|| "loc".into())
    )
}

pub fn elem_line(m: &Module, id: ElementId) -> String {
    let e = m.elements.get(id);
    let mode = match &e.kind {
        ElementKind::Passive => "passive".to_string(),
        ElementKind::Declared => "declared".to_string(),
        ElementKind::Active { table, offset } => format!("active[{}]@{}", table_line(m, *table), cexpr(m, offset, 0)),
    };
    let (ty, items) = match &e.items {
        ElementItems::Functions(fs) => ("funcref", fs.iter().map(|f| format!("func({})", func_line(m, *f))).collect::<Vec<_>>()),
        ElementItems::Expressions(t, es) => (rt(*t), es.iter().map(|x| cexpr(m, x, 0)).collect::<Vec<_>>()),
    };
    format!("E {} {} n={} h={:016x}", mode, ty, items.len(), wv_gen::rng::fnv64(items.join(";").as_bytes()))
}

pub fn data_line(m: &Module, id: DataId) -> String {
    let d = m.data.get(id);
    let mode = match &d.kind {
        DataKind::Passive => "passive".to_string(),
        DataKind::Active { memory, offset } => format!("active[{}]@{}", memory_line(m, *memory), cexpr(m, offset, 0)),
    };
    format!("D {} len={} h={:016x}", mode, d.value.len(), wv_gen::rng::fnv64(&d.value))
}

pub fn type_line(m: &Module, id: TypeId) -> String {
    format!("Y {}", sig(m, id))
}

/// id <-> input index, captured inside on_parse
#[derive(Default, Debug, Clone)]
pub struct InputIds {
    pub funcs: Vec<FunctionId>,
    pub types: Vec<TypeId>,
    pub tables: Vec<TableId>,
    pub memories: Vec<MemoryId>,
    pub globals: Vec<GlobalId>,
    pub elements: Vec<ElementId>,
    pub data: Vec<DataId>,
}

#[derive(Default, Debug)]
pub struct OnParseLog {
    pub calls: u64,
    /// attribute lines "<kind> <index> | <line>"
    pub lines: Vec<String>,
    /// "<function index> <local index> <name>" for every local that carries a name right after parsing
    pub local_names: Vec<String>,
    pub ids: InputIds,
}

/// Query every index of every index space until the map reports out-of-bounds,
/// and describe the entity each returned id denotes.
pub fn observe_on_parse(m: &Module, ids: &IndicesToIds, log: &mut OnParseLog, describe: bool) {
    log.calls += 1;
    let mut i = 0u32;
    while let Ok(id) = ids.get_func(i) {
        log.ids.funcs.push(id);
        if describe {
            log.lines.push(format!("func {} | {}", i, func_line(m, id)));
            if let FunctionKind::Local(l) = &m.funcs.get(id).kind {
                let _ = l;
                let mut j = 0u32;
                let mut tys = Vec::new();
                while let Ok(lid) = ids.get_local(id, j) {
                    tys.push(vt(m.locals.get(lid).ty()));
                    if let Some(n) = &m.locals.get(lid).name {
                        log.local_names.push(format!("{} {} {}", i, j, n));
                    }
                    j += 1;
                }
                log.lines.push(format!("locals {} | {}", i, tys.join(",")));
            }
        }
        i += 1;
    }
    i = 0;
    while let Ok(id) = ids.get_type(i) {
        log.ids.types.push(id);
        if describe {
            log.lines.push(format!("type {} | {}", i, type_line(m, id)));
        }
        i += 1;
    }
    i = 0;
    while let Ok(id) = ids.get_table(i) {
        log.ids.tables.push(id);
        if describe {
            log.lines.push(format!("table {} | {}", i, table_line(m, id)));
        }
        i += 1;
    }
    i = 0;
    while let Ok(id) = ids.get_memory(i) {
        log.ids.memories.push(id);
        if describe {
            log.lines.push(format!("memory {} | {}", i, memory_line(m, id)));
        }
        i += 1;
    }
    i = 0;
    while let Ok(id) = ids.get_global(i) {
        log.ids.globals.push(id);
        if describe {
            log.lines.push(format!("global {} | {}", i, global_line(m, id)));
        }
        i += 1;
    }
    i = 0;
    while let Ok(id) = ids.get_element(i) {
        log.ids.elements.push(id);
        if describe {
            log.lines.push(format!("elem {} | {}", i, elem_line(m, id)));
        }
        i += 1;
    }
    i = 0;
    while let Ok(id) = ids.get_data(i) {
        log.ids.data.push(id);
        if describe {
            log.lines.push(format!("data {} | {}", i, data_line(m, id)));
        }
        i += 1;
    }
}

#[derive(Default, Debug)]
pub struct ProbeOut {
    pub transform_calls: u64,
    pub code_section_start: usize,
    pub instruction_map: Vec<(u32, usize)>,
    /// (function input index or usize::MAX, start, end)
    pub function_ranges: Vec<(usize, usize, usize)>,
    pub data_calls: u64,
}

/// Harness custom section. Its payload, produced while walrus serialises, is a
/// list of lines "<kind> <input index|-> <emitted index|!>" for every id that
/// is live in the module at emit time.
#[derive(Debug)]
pub struct Probe {
    pub live: Vec<(char, String, LiveId)>,
    pub input_ids: InputIds,
    pub out: Arc<Mutex<ProbeOut>>,
    pub roots: Vec<LiveId>,
    /// also write the CodeTransform this section was handed into the payload (so that the emitted bytes
    /// depend on it: used by the serial-vs-parallel comparison)
    pub embed_transform: bool,
}

#[derive(Debug, Clone, Copy)]
pub enum LiveId {
    F(FunctionId),
    Y(TypeId),
    T(TableId),
    M(MemoryId),
    G(GlobalId),
    E(ElementId),
    D(DataId),
}

pub const PROBE_NAME: &str = "wv.probe";

impl Probe {
    /// Capture all ids that are live in `m` right now.
    pub fn capture(m: &Module, input_ids: &InputIds, out: Arc<Mutex<ProbeOut>>) -> Probe {
        fn pos<T: PartialEq>(v: &[T], x: &T) -> String {
            v.iter().position(|y| y == x).map(|p| p.to_string()).unwrap_or_else(|| "-".into())
        }
        let mut live = Vec::new();
        for f in m.funcs.iter() {
            live.push(('F', pos(&input_ids.funcs, &f.id()), LiveId::F(f.id())));
        }
        for t in m.types.iter() {
            live.push(('Y', pos(&input_ids.types, &t.id()), LiveId::Y(t.id())));
        }
        for t in m.tables.iter() {
            live.push(('T', pos(&input_ids.tables, &t.id()), LiveId::T(t.id())));
        }
        for t in m.memories.iter() {
            live.push(('M', pos(&input_ids.memories, &t.id()), LiveId::M(t.id())));
        }
        for t in m.globals.iter() {
            live.push(('G', pos(&input_ids.globals, &t.id()), LiveId::G(t.id())));
        }
        for t in m.elements.iter() {
            live.push(('E', pos(&input_ids.elements, &t.id()), LiveId::E(t.id())));
        }
        for t in m.data.iter() {
            live.push(('D', pos(&input_ids.data, &t.id()), LiveId::D(t.id())));
        }
        Probe { live, input_ids: input_ids.clone(), out, roots: vec![], embed_transform: false }
    }
}

impl CustomSection for Probe {
    fn name(&self) -> &str {
        PROBE_NAME
    }

    fn data(&self, ids: &IdsToIndices) -> Cow<[u8]> {
        self.out.lock().unwrap().data_calls += 1;
        let mut s = String::new();
        for (k, in_idx, id) in &self.live {
            // `get_*_index` panics for an id without an emitted index; observe that as "!"
            let r = std::panic::catch_unwind(std::panic::AssertUnwindSafe(|| match id {
                LiveId::F(x) => ids.get_func_index(*x),
                LiveId::Y(x) => ids.get_type_index(*x),
                LiveId::T(x) => ids.get_table_index(*x),
                LiveId::M(x) => ids.get_memory_index(*x),
                LiveId::G(x) => ids.get_global_index(*x),
                LiveId::E(x) => ids.get_element_index(*x),
                LiveId::D(x) => ids.get_data_index(*x),
            }));
            match r {
                Ok(i) => s.push_str(&format!("{} {} {}\n", k, in_idx, i)),
                Err(_) => s.push_str(&format!("{} {} !\n", k, in_idx)),
            }
        }
        if self.embed_transform {
            let o = self.out.lock().unwrap();
            s.push_str(&format!("ct.start {}\n", o.code_section_start));
            for (f, a, b) in &o.function_ranges {
                s.push_str(&format!("ct.range {} {} {}\n", *f as i64, a, b));
            }
            for (a, b) in &o.instruction_map {
                s.push_str(&format!("ct.pair {} {}\n", a, b));
            }
        }
        Cow::Owned(s.into_bytes())
    }

    fn add_gc_roots(&self, roots: &mut passes::Roots) {
        for r in &self.roots {
            match r {
                LiveId::F(x) => {
                    roots.push_func(*x);
                }
                LiveId::T(x) => {
                    roots.push_table(*x);
                }
                LiveId::M(x) => {
                    roots.push_memory(*x);
                }
                LiveId::G(x) => {
                    roots.push_global(*x);
                }
                // only functions, tables, memories and globals can be custom-section roots
                LiveId::E(_) | LiveId::D(_) | LiveId::Y(_) => {}
            }
        }
    }

    fn apply_code_transform(&mut self, t: &CodeTransform) {
        let mut o = self.out.lock().unwrap();
        o.transform_calls += 1;
        o.code_section_start = t.code_section_start;
        o.instruction_map = t.instruction_map.iter().map(|(a, b)| (a.data(), *b)).collect();
        o.function_ranges = t
            .function_ranges
            .iter()
            .map(|(f, r)| (self.input_ids.funcs.iter().position(|x| x == f).unwrap_or(usize::MAX), r.start, r.end))
            .collect();
    }
}
